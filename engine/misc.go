package main

import (
	"fmt"
	"go/types"
	"os"
	"strings"

	"golang.org/x/tools/go/ssa"
)

// ---- value helpers ---------------------------------------------------------------------

func (ex *Exec) iteVal(c Term, a, b Val, t types.Type) Val {
	if c.IsTrue() {
		return a
	}
	if c.IsFalse() {
		return b
	}
	switch x := a.(type) {
	case *StructV:
		y, ok := b.(*StructV)
		if !ok {
			return a
		}
		r := &StructV{T: x.T, F: make([]Val, len(x.F))}
		for i := range x.F {
			r.F[i] = ex.iteVal(c, x.F[i], y.F[i], x.T.Field(i).Type())
		}
		return r
	case AddrV, *ClosureV, TupleV:
		return a
	}
	fa, fb := flatten(ex.coerce(a, t)), flatten(ex.coerce(b, t))
	r := make([]Term, len(fa))
	for i := range fa {
		r[i] = Ite(c, fa[i], fb[i])
	}
	return unflatten(t, r)
}

// valToElem encodes a value as a log element.
func (ex *Exec) valToElem(st *State, v Val, t types.Type) Term {
	switch x := v.(type) {
	case Term:
		switch x.Sort {
		case SInt:
			return App(SElem, "eI", x)
		case SBool:
			return App(SElem, "eI", Ite(x, IntT(1), IntT(0)))
		case SBytes:
			return App(SElem, "eS", x)
		case SF64:
			return App(SElem, "eF", x)
		}
	case SliceV:
		if sl, ok := t.Underlying().(*types.Slice); ok {
			if b, ok := sl.Elem().Underlying().(*types.Basic); ok && b.Kind() == types.Uint8 {
				return App(SElem, "eB", ex.content(st, x), x.Arr)
			}
		}
		return App(SElem, "eL", x.Arr, x.Off, x.Len)
	case IfaceV:
		return App(SElem, "eP", App(SElem, "eI", x.Tag), App(SElem, "eI", x.Ref))
	case *StructV:
		r := Term{"eNil", SElem}
		for i := len(x.F) - 1; i >= 0; i-- {
			r = App(SElem, "eP", ex.valToElem(st, x.F[i], x.T.Field(i).Type()), r)
		}
		return r
	case *ClosureV:
		return App(SElem, "eI", ex.closureRef(x))
	case TupleV:
		r := Term{"eNil", SElem}
		for i := len(x) - 1; i >= 0; i-- {
			r = App(SElem, "eP", ex.valToElem(st, x[i], nil), r)
		}
		return r
	}
	return Term{"eNil", SElem}
}

// argsElem encodes an argument list as a log element (right-nested pairs ending in eNil).
func (ex *Exec) argsElem(st *State, vals []Val, ts []types.Type) Term {
	r := Term{"eNil", SElem}
	for i := len(vals) - 1; i >= 0; i-- {
		var t types.Type
		if i < len(ts) {
			t = ts[i]
		}
		r = App(SElem, "eP", ex.valToElem(st, vals[i], t), r)
	}
	return r
}

// ---- maps -------------------------------------------------------------------------------------

func keySort(t types.Type) string {
	switch kindOf(t) {
	case KString:
		return SBytes
	case KBool:
		return SBool
	}
	return SInt
}

func mapArr(k, v string) string { return "(Array " + k + " " + v + ")" }

type mapInfo struct {
	key, ks string
	kt, vt  types.Type
}

func mapInfoOf(t types.Type) mapInfo {
	m := t.Underlying().(*types.Map)
	return mapInfo{"map:" + typeKey(t.Underlying()), keySort(m.Key()), m.Key(), m.Elem()}
}

func (ex *Exec) mapDom(st *State, mi mapInfo) Term {
	return ex.heap(st, mi.key+"#dom", ArrSort(mapArr(mi.ks, SBool)))
}

func (ex *Exec) initMap(st *State, t types.Type, m Term) {
	mi := mapInfoOf(t)
	d := ex.mapDom(st, mi)
	st.Heaps[mi.key+"#dom"] = Store(d, m, Term{fmt.Sprintf("((as const %s) false)", mapArr(mi.ks, SBool)), mapArr(mi.ks, SBool)})
	l := ex.heap(st, mi.key+"#len", ArrSort(SInt))
	st.Heaps[mi.key+"#len"] = Store(l, m, IntT(0))
}

func (ex *Exec) mapElemRef(mi mapInfo, m, k Term) Term {
	fn := "mapelem:" + mi.key
	sym := smtSym(fn)
	if !ex.D.seen[sym] {
		ex.D.Fun(fn, []string{SInt, mi.ks}, SInt)
		kid := ex.kindID(fn)
		ex.D.Fun("mapkey:"+mi.key, []string{SInt}, mi.ks)
		ks := smtSym("mapkey:" + mi.key)
		ex.D.lines = append(ex.D.lines, declLine{sym, fmt.Sprintf(
			"(assert (forall ((a Int) (k %s)) (! (and (= (subbase (%s a k)) a) (= (%s (%s a k)) k) (= (subkind (%s a k)) %d) (< (%s a k) 0) (= (root (%s a k)) (root a))) :pattern ((%s a k)))))",
			mi.ks, sym, ks, sym, sym, kid, sym, sym, sym)})
	}
	return App(SInt, sym, m, k)
}

func (ex *Exec) mapValue(st *State, mi mapInfo, m, k Term) Val {
	if kindOf(mi.vt) == KStruct {
		v := ex.loadLoc(st, Loc{Kind: LStruct, Ref: ex.mapElemRef(mi, m, k), Typ: mi.vt})
		return v
	}
	cs := leafComps(mi.vt)
	ts := make([]Term, len(cs))
	for i, c := range cs {
		if isRefComp(mi.vt, c) {
			ex.markRef(mi.key + "#val" + c.Suffix)
		}
		h := ex.heap(st, mi.key+"#val"+c.Suffix, ArrSort(mapArr(mi.ks, c.Sort)))
		ts[i] = Select(Select(h, m), k)
	}
	return unflatten(mi.vt, ts)
}

func (ex *Exec) lookup(st *State, fr *Frame, in *ssa.Lookup) Val {
	x := ex.val(st, fr, in.X)
	idx, _ := ex.val(st, fr, in.Index).(Term)
	if kindOf(in.X.Type()) == KString {
		b := x.(Term)
		ex.safe(st, And(Le(IntT(0), idx), Lt(idx, App(SInt, "blen", b))), in, "index out of range")
		r := App(SInt, "bat", b, idx)
		st.Assume(And(Le(IntT(0), r), Lt(r, IntT(256))))
		return r
	}
	m, ok := x.(Term)
	if !ok {
		ex.unsupported("lookup on %T", x)
		return ex.symbolic(st, "lookup", in.Type())
	}
	mi := mapInfoOf(in.X.Type())
	has := Select(Select(ex.mapDom(st, mi), m), idx)
	v := ex.mapValue(st, mi, m, idx)
	ex.assumeTyped(st, v, mi.vt)
	v = ex.iteVal(has, v, ex.zeroVal(st, mi.vt), mi.vt)
	if in.CommaOk {
		return TupleV{v, has}
	}
	return v
}

func (ex *Exec) mapStore(st *State, mi mapInfo, m, k Term, v Val) {
	d := ex.mapDom(st, mi)
	had := Select(Select(d, m), k)
	st.Heaps[mi.key+"#dom"] = Store(d, m, Store(Select(d, m), k, True))
	ex.recordWrite(mi.key+"#dom", LHeap1, m, d.Sort)
	l := ex.heap(st, mi.key+"#len", ArrSort(SInt))
	st.Heaps[mi.key+"#len"] = Store(l, m, Ite(had, Select(l, m), Add(Select(l, m), IntT(1))))
	ex.recordWrite(mi.key+"#len", LHeap1, m, l.Sort)
	if kindOf(mi.vt) == KStruct {
		ex.storeLoc(st, Loc{Kind: LStruct, Ref: ex.mapElemRef(mi, m, k), Typ: mi.vt}, v)
		return
	}
	cs := leafComps(mi.vt)
	ts := flatten(ex.coerce(v, mi.vt))
	for i, c := range cs {
		name := mi.key + "#val" + c.Suffix
		if isRefComp(mi.vt, c) {
			ex.markRef(name)
		}
		h := ex.heap(st, name, ArrSort(mapArr(mi.ks, c.Sort)))
		st.Heaps[name] = Store(h, m, Store(Select(h, m), k, ts[i]))
		ex.recordWrite(name, LHeap1, m, h.Sort)
	}
}

func (ex *Exec) mapUpdate(st *State, fr *Frame, in *ssa.MapUpdate) {
	m, ok := ex.val(st, fr, in.Map).(Term)
	if !ok {
		ex.unsupported("map update on non-map")
		return
	}
	k, _ := ex.val(st, fr, in.Key).(Term)
	ex.safe(st, Neq(m, IntT(0)), in, "assignment to entry in nil map")
	ex.mapStore(st, mapInfoOf(in.Map.Type()), m, k, ex.val(st, fr, in.Value))
}

func (ex *Exec) mapDelete(st *State, t types.Type, m, k Term) {
	mi := mapInfoOf(t)
	d := ex.mapDom(st, mi)
	had := Select(Select(d, m), k)
	st.Heaps[mi.key+"#dom"] = Store(d, m, Store(Select(d, m), k, False))
	ex.recordWrite(mi.key+"#dom", LHeap1, m, d.Sort)
	l := ex.heap(st, mi.key+"#len", ArrSort(SInt))
	st.Heaps[mi.key+"#len"] = Store(l, m, Ite(had, Sub(Select(l, m), IntT(1)), Select(l, m)))
	ex.recordWrite(mi.key+"#len", LHeap1, m, l.Sort)
}

// IterV is the hidden state of a map range loop.
type IterV struct {
	Map     Term
	Visited Term
	T       types.Type
	Str     bool
}

func (ex *Exec) rangeInit(st *State, fr *Frame, in *ssa.Range) {
	if kindOf(in.X.Type()) == KString {
		ex.unsupported("range over string")
		fr.Regs[in] = IterV{Str: true}
		return
	}
	m, _ := ex.val(st, fr, in.X).(Term)
	mi := mapInfoOf(in.X.Type())
	fr.Regs[in] = IterV{Map: m, Visited: Term{fmt.Sprintf("((as const %s) false)", mapArr(mi.ks, SBool)), mapArr(mi.ks, SBool)}, T: in.X.Type()}
}

func (ex *Exec) rangeNext(st *State, fr *Frame, in *ssa.Next) {
	it, ok := fr.Regs[in.Iter].(IterV)
	if !ok || it.Str {
		ex.unsupported("range next on unsupported iterator")
		fr.Regs[in] = ex.symbolic(st, "next", in.Type())
		return
	}
	mi := mapInfoOf(it.T)
	okT := ex.D.Fresh("next.ok", SBool)
	k := ex.D.Fresh("next.key", mi.ks)
	dom := Select(ex.mapDom(st, mi), it.Map)
	// ok: k is an unvisited member; !ok: every member was visited
	st.Assume(Implies(okT, And(Select(dom, k), Not(Select(it.Visited, k)))))
	st.Assume(Implies(Not(okT), Term{fmt.Sprintf("(forall ((kk %s)) (=> (select %s kk) (select %s kk)))", mi.ks, dom.S, it.Visited.S), SBool}))
	if kindOf(mi.kt) == KInt {
		ex.assumeTyped(st, k, mi.kt)
	}
	v := ex.mapValue(st, mi, it.Map, k)
	ex.assumeTyped(st, v, mi.vt)
	fr.Regs[in.Iter] = IterV{Map: it.Map, Visited: Store(it.Visited, k, True), T: it.T}
	fr.Regs[in] = TupleV{okT, k, v}
}

// ---- channels ----------------------------------------------------------------------------------

func chanHeap(elem types.Type, what string) string { return "chan:" + typeKey(elem) + "#" + what }

func (ex *Exec) initChan(st *State, c, size Term, elem types.Type) {
	s := ex.heap(st, chanHeap(elem, "sent"), ArrSort(SLog))
	st.Heaps[chanHeap(elem, "sent")] = Store(s, c, Term{"lnil", SLog})
	r := ex.heap(st, chanHeap(elem, "recvd"), ArrSort(SLog))
	st.Heaps[chanHeap(elem, "recvd")] = Store(r, c, Term{"lnil", SLog})
	cl := ex.heap(st, chanHeap(elem, "closed"), ArrSort(SBool))
	st.Heaps[chanHeap(elem, "closed")] = Store(cl, c, False)
	cp := ex.heap(st, chanHeap(elem, "cap"), ArrSort(SInt))
	st.Heaps[chanHeap(elem, "cap")] = Store(cp, c, size)
}

func (ex *Exec) chanSend(st *State, ch Term, v Val, t types.Type, instr ssa.Instruction, blocking bool) {
	elem := t
	cl := ex.heap(st, chanHeap(elem, "closed"), ArrSort(SBool))
	ex.safe(st, Not(Select(cl, ch)), instr, "send on closed channel")
	s := ex.heap(st, chanHeap(elem, "sent"), ArrSort(SLog))
	st.Heaps[chanHeap(elem, "sent")] = Store(s, ch, App(SLog, "lsnoc", Select(s, ch), ex.valToElem(st, v, t)))
	ex.recordWrite(chanHeap(elem, "sent"), LHeap1, ch, ArrSort(SLog))
	if blocking {
		ex.effect(st, "blocking-send", instr)
	}
}

func (ex *Exec) chanRecv(st *State, ch Term, t types.Type, commaOk bool, instr ssa.Instruction) Val {
	elem := t
	v := ex.symbolic(st, "recv", t)
	r := ex.heap(st, chanHeap(elem, "recvd"), ArrSort(SLog))
	okT := True
	if commaOk {
		cl := ex.heap(st, chanHeap(elem, "closed"), ArrSort(SBool))
		if !knownConjunct(st, Not(Select(cl, ch)).S) {
			okT = ex.D.Fresh("recv.ok", SBool)
			// a receive only reports !ok on a closed channel
			st.Assume(Or(okT, Select(cl, ch)))
		}
		// otherwise the path condition says literally that the channel is open: the receive is a value
	}
	st.Heaps[chanHeap(elem, "recvd")] = Store(r, ch, Ite(okT, App(SLog, "lsnoc", Select(r, ch), ex.valToElem(st, v, t)), Select(r, ch)))
	ex.recordWrite(chanHeap(elem, "recvd"), LHeap1, ch, ArrSort(SLog))
	// drained(ch): the last receive attempt on ch found it empty (set by a select that fell
	// through to its default, cleared by every successful receive)
	dr := ex.heap(st, chanHeap(elem, "drained"), ArrSort(SBool))
	st.Heaps[chanHeap(elem, "drained")] = Store(dr, ch, And(Select(dr, ch), Not(okT)))
	ex.recordWrite(chanHeap(elem, "drained"), LHeap1, ch, ArrSort(SBool))
	if instr != nil {
		ex.effect(st, "blocking-recv", instr)
	}
	if commaOk {
		return TupleV{ex.iteVal(okT, v, ex.zeroVal(st, t), t), okT}
	}
	return v
}

func (ex *Exec) chanClose(st *State, ch Term, instr ssa.Instruction, elem types.Type) {
	cl := ex.heap(st, chanHeap(elem, "closed"), ArrSort(SBool))
	ex.safe(st, And(Neq(ch, IntT(0)), Not(Select(cl, ch))), instr, "close of nil or closed channel")
	st.Heaps[chanHeap(elem, "closed")] = Store(cl, ch, True)
	ex.recordWrite(chanHeap(elem, "closed"), LHeap1, ch, ArrSort(SBool))
}

// chanFieldKey: "pkg.Type.field" when the channel value was loaded from a struct field.
func chanFieldKey(v ssa.Value) string {
	u, ok := v.(*ssa.UnOp)
	if !ok {
		return ""
	}
	fa, ok := u.X.(*ssa.FieldAddr)
	if !ok {
		return ""
	}
	n := namedOf(fa.X.Type())
	if n == nil {
		return ""
	}
	return typeKey(n) + "." + structOf(deref(fa.X.Type())).Field(fa.Field).Name()
}

// chanInv evaluates the invariant of the channel (if one is declared) on a value.
func (ex *Exec) chanInv(st *State, ch ssa.Value, v Val, t types.Type) (Term, *MacroDef, bool) {
	key := chanFieldKey(ch)
	if key == "" || ex.ctx.specs.ChanInvs == nil {
		return Term{}, nil, false
	}
	md, ok := ex.ctx.specs.ChanInvs[key]
	if !ok {
		return Term{}, nil, false
	}
	env := ex.baseEnv(st)
	r, err := env.macro(md, []EV{{V: v, T: t}})
	if err != nil {
		ex.errs = append(ex.errs, "contract-binding: chan_invariant "+key+": "+err.Error())
		return Term{}, nil, false
	}
	g, ok := r.V.(Term)
	return g, md, ok
}

// effect records blocking operations met on a path (used by the nonblocking effect check).
func (ex *Exec) effect(st *State, kind string, instr ssa.Instruction) {
	st.Trace = append(st.Trace, kind+"@"+ex.pos(instr))
}

func (ex *Exec) selectInstr(st *State, frID int, in *ssa.Select, k func(*State, Val)) {
	fr := st.Frames[frID]
	n := len(in.States)
	type stv struct {
		ch   Term
		send Val
	}
	svs := make([]stv, n)
	for i, s := range in.States {
		svs[i].ch, _ = ex.val(st, fr, s.Chan).(Term)
		if s.Send != nil {
			svs[i].send = ex.val(st, fr, s.Send)
		}
	}
	// result tuple: (index, recvOk, r_0 ... ) with one r per receive state
	mk := func(st *State, idx int, okT Term, recvIdx int, rv Val) Val {
		tv := TupleV{IntT(int64(idx)), okT}
		for i, s := range in.States {
			if s.Dir == types.RecvOnly {
				et := s.Chan.Type().Underlying().(*types.Chan).Elem()
				if i == recvIdx {
					tv = append(tv, rv)
				} else {
					tv = append(tv, ex.zeroVal(st, et))
				}
			}
		}
		return tv
	}
	for i, s := range in.States {
		st2 := st.Clone()
		ch := svs[i].ch
		st2.Assume(Neq(ch, IntT(0)))
		st2.Trace = append(st2.Trace, "case:"+ex.caseText(in, i))
		if s.Dir == types.SendOnly {
			if g, md, ok := ex.chanInv(st2, s.Chan, svs[i].send, s.Send.Type()); ok {
				ex.oblige(st2, "chan-invariant", chanFieldKey(s.Chan), nil, g, md.Src)
			}
			ex.chanSend(st2, ch, svs[i].send, s.Send.Type(), in, false)
			k(st2, mk(st2, i, False, -1, nil))
		} else {
			et := s.Chan.Type().Underlying().(*types.Chan).Elem()
			r := ex.chanRecv(st2, ch, et, true, nil).(TupleV)
			if g, _, ok := ex.chanInv(st2, s.Chan, r[0], et); ok {
				st2.Assume(Implies(r[1].(Term), g))
			}
			if ex.contract != nil && st2.Frames[frID].Fn == ex.fn {
				txt := ex.caseText(in, i)
				for label, cs := range ex.contract.RecvAssumes {
					if !strings.Contains(txt, label) {
						continue
					}
					for _, c := range cs {
						env := ex.baseEnv(st2)
						if ex.fenv != nil {
							for k, v := range ex.fenv.vars {
								env.vars[k] = v
							}
						}
						env.frame = st2.Frames[frID]
						env.bound = map[string]EV{"$recv": {V: r[0], T: et}}
						g, err := env.evalBool(c.E)
						if err != nil {
							ex.bindingError(c, err)
							continue
						}
						st2.Assume(g)
						ex.assumed[fmt.Sprintf("assumed (unproved) about values received in %s case %q: %s", funcKey(ex.fn), label, c.Src)] = true
					}
				}
			}
			k(st2, mk(st2, i, r[1].(Term), i, r[0]))
		}
	}
	if !in.Blocking {
		st2 := st.Clone()
		st2.Trace = append(st2.Trace, "case:default")
		for i, s := range in.States {
			if s.Dir == types.RecvOnly {
				et := s.Chan.Type().Underlying().(*types.Chan).Elem()
				dr := ex.heap(st2, chanHeap(et, "drained"), ArrSort(SBool))
				st2.Heaps[chanHeap(et, "drained")] = Store(dr, svs[i].ch, True)
				ex.recordWrite(chanHeap(et, "drained"), LHeap1, svs[i].ch, ArrSort(SBool))
			}
		}
		k(st2, mk(st2, -1, False, -1, nil))
	} else {
		ex.effect(st, "blocking-select", in)
	}
}

func s2instr(in *ssa.Select, i int) ssa.Instruction { return in }

// caseText: the source line of the communication clause of select state i.
func (ex *Exec) caseText(in *ssa.Select, i int) string {
	p := in.States[i].Pos
	if !p.IsValid() {
		return "?"
	}
	ps := ex.ctx.prog.Fset.Position(p)
	srcMu.Lock()
	lines, ok := srcCache[ps.Filename]
	if !ok {
		data, _ := os.ReadFile(ps.Filename)
		lines = strings.Split(string(data), "\n")
		srcCache[ps.Filename] = lines
	}
	srcMu.Unlock()
	if ps.Line >= 1 && ps.Line-1 < len(lines) {
		return strings.Join(strings.Fields(lines[ps.Line-1]), " ")
	}
	return "?"
}

// ---- go / defer --------------------------------------------------------------------------------

func (ex *Exec) goStmt(st *State, fr *Frame, in *ssa.Go) {
	name := "?"
	var elems TupleV
	if in.Call.IsInvoke() {
		name = in.Call.Method.FullName()
	} else {
		switch f := ex.val(st, fr, in.Call.Value).(type) {
		case *ClosureV:
			name = f.Fn.String()
		}
	}
	for _, a := range in.Call.Args {
		v := ex.val(st, fr, a)
		switch v.(type) {
		case AddrV:
			v = IntT(0)
		}
		elems = append(elems, v)
	}
	// a goroutine that runs a function under contract is handed a state in which that function's
	// precondition holds: checked here, at the go statement (the hand-off)
	if !in.Call.IsInvoke() && ex.disc == nil {
		if f, ok := ex.val(st, fr, in.Call.Value).(*ClosureV); ok && len(f.Bind) == 0 {
			fc := ex.ctx.specs.Funcs[funcKey(f.Fn)]
			if fc != nil && !fc.Extern && !fc.Iface && !fc.SpawnChecked && len(fc.Requires) > 0 {
				ex.assumed["precondition of "+fc.Key+" is assumed (not checked) where "+funcKey(ex.fn)+" starts it with a go statement"] = true
			}
			if fc != nil && !fc.Extern && !fc.Iface && fc.SpawnChecked {
				var args []Val
				for _, a := range in.Call.Args {
					args = append(args, ex.val(st, fr, a))
				}
				if env, err := ex.contractEnv(st, nil, fc, f.Fn.Signature, args); err != nil {
					ex.errs = append(ex.errs, "contract-binding: "+err.Error())
				} else {
					if err := ex.bindLets(env, fc, st); err != nil {
						ex.errs = append(ex.errs, "contract-binding: "+fc.Key+": "+err.Error())
					}
					for _, c := range fc.Requires {
						g, err := env.evalBool(c.E)
						if err != nil {
							ex.bindingError(c, err)
							continue
						}
						props := c.Props
						if len(props) == 0 {
							props = fc.Props
						}
						if ex.contract != nil && len(props) == 0 {
							props = ex.contract.Props
						}
						ex.oblige(st, "spawn-precondition", fmt.Sprintf("%s:%s @ %s", fc.Key, c.Label, ex.srcLine(in)), props, g, c.Src)
					}
				}
			}
		}
	}
	h := "spawned:" + name
	cur := ex.heap(st, h, SLog)
	st.Heaps[h] = App(SLog, "lsnoc", cur, ex.valToElem(st, elems, nil))
	if ex.disc != nil {
		ex.disc.writes = append(ex.disc.writes, writeRec{heap: h, kind: LCell, sort: SLog})
	}
}

func (ex *Exec) runDefers(st *State, frID int, k func(*State)) {
	fr := st.Frames[frID]
	if len(fr.Defer) == 0 {
		k(st)
		return
	}
	d := fr.Defer[len(fr.Defer)-1]
	fr.Defer = fr.Defer[:len(fr.Defer)-1]
	ex.callResolved(st, frID, d.instr, d.call, d.fnVal, d.args, func(st *State, _ []Val) {
		ex.runDefers(st, frID, k)
	})
}

// knownConjunct: lit occurs as an assertion of the path condition or as a conjunct of a
// (nested) top-level conjunction of one (a syntactic check; only the latest assertions are scanned).
func knownConjunct(st *State, lit string) bool {
	var inAnd func(e *SExp) bool
	inAnd = func(e *SExp) bool {
		if e.String() == lit {
			return true
		}
		if !e.IsAtom() && e.head() == "and" {
			for _, c := range e.List[1:] {
				if inAnd(c) {
					return true
				}
			}
		}
		return false
	}
	for i := len(st.PC) - 1; i >= 0 && i >= len(st.PC)-80; i-- {
		a := st.PC[i].S
		if a == lit {
			return true
		}
		if strings.HasPrefix(a, "(and ") && strings.Contains(a, lit) {
			if es := parseSExps(a); len(es) == 1 && inAnd(es[0]) {
				return true
			}
		}
	}
	return false
}
