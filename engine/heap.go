package main

import (
	"fmt"
	"go/types"
	"regexp"
	"strconv"
	"strings"

	"golang.org/x/tools/go/ssa"
)

// Exec verifies one function: symbolic execution over go/ssa with loop cuts
// at invariants and call cuts at contracts.
type Exec struct {
	ctx               *Ctx
	D                 *Decls
	fn                *ssa.Function
	contract          *FuncContract
	obls              []*Obligation
	frameSeq          int
	paths             int
	disc              *discovery // non-nil while a loop body is explored to find what it writes
	safety            bool
	errs              []string // unsupported constructs met (make the function UNDECIDED)
	externs           map[string]bool
	assumed           map[string]bool
	inlined           map[string]bool
	entry             *State
	subKinds          map[string]int
	retCount          int
	litSeen           map[string]Term
	curPos            string
	depth             int
	loopInitDone      map[string]bool
	fenv              *Env
	canaries          bool
	refHeaps          map[string]bool
	addrBoxes         map[string]AddrV
	noSafety          bool
	iterStart         map[*ssa.BasicBlock]*State
	auxTypes          map[string]types.Type
	nameAs            string
	retSite           string
	retLabels         map[ssa.Instruction]string
	appendMode        int
	memo              map[string]*memoEntry
	groups            map[string][][]Term
	regions           map[*ssa.BasicBlock]*joinRegion
	batchN            int
	memoHits          int
	noMemo            bool
	freshRes          map[string]int // symbols of results of fresh callees -> creation number
	pathCap           int
	capHit            bool
	lastAppendTrivial bool
	canaryN           map[string]int
}

type discovery struct {
	watermark int
	loop      *Loop
	frameID   int
	writes    []writeRec
	globals   map[*ssa.Global]bool
	allocated bool
	depth     int
}

type writeRec struct {
	heap    string
	kind    LocKind
	ref     Term
	sort    string
	precise bool
	fresh   bool // the object written was allocated inside the loop body
}

func (ex *Exec) unsupported(format string, a ...interface{}) {
	msg := fmt.Sprintf(format, a...)
	if ex.curPos != "" {
		msg += " at " + ex.curPos
	}
	for _, e := range ex.errs {
		if e == msg {
			return
		}
	}
	ex.errs = append(ex.errs, msg)
}

// ---- heaps ----------------------------------------------------------------------

func (ex *Exec) heap(st *State, name, sort string) Term {
	if t, ok := st.Heaps[name]; ok {
		return t
	}
	base := st.Base
	if b, ok := st.PendingBase[name]; ok {
		base = b
	}
	t := ex.D.Const(base+":"+name, sort)
	st.Heaps[name] = t
	if base == "H0" && ex.isRefHeap(name) {
		ex.refAxiom(name, sort)
	}
	return t
}

// markRef notes that a heap component holds references (must be called before the component
// is first used).
func (ex *Exec) markRef(name string) {
	if ex.refHeaps == nil {
		ex.refHeaps = map[string]bool{}
	}
	ex.refHeaps[name] = true
}

// refAxiom: every reference stored anywhere in the entry-state heap designates an object that
// already existed, i.e. lies at or below the entry watermark (well-typed heap). Objects created
// later get their contents in later heap versions, never in the entry heap.
func (ex *Exec) refAxiom(name, sort string) {
	sym := smtSym("H0:" + name)
	key := "refheap:" + sym
	if ex.D.seen[key] {
		return
	}
	ex.D.seen[key] = true
	if k, ok := innerKeySort(sort); ok {
		ex.D.lines = append(ex.D.lines, declLine{sym, fmt.Sprintf("(assert (forall ((a Int) (i %s)) (! (<= (root (select (select %s a) i)) top0) :pattern ((select (select %s a) i)))))", k, sym, sym)})
	} else if sort == ArrSort(SInt) {
		ex.D.lines = append(ex.D.lines, declLine{sym, fmt.Sprintf("(assert (forall ((r Int)) (! (<= (root (select %s r)) top0) :pattern ((select %s r)))))", sym, sym)})
	}
}

func (ex *Exec) refHeap(name string, twoD bool) { ex.markRef(name) }

// innerKeySort: for a sort (Array Int (Array K Int)) of reference-valued two-level heaps
// (slice elements, map values) returns K.
func innerKeySort(sort string) (string, bool) {
	const pre = "(Array Int (Array "
	if !strings.HasPrefix(sort, pre) || !strings.HasSuffix(sort, " Int))") {
		return "", false
	}
	k := strings.TrimSuffix(strings.TrimPrefix(sort, pre), " Int))")
	if strings.ContainsAny(k, " ()") {
		return "", false
	}
	return k, true
}

func (ex *Exec) isRefHeap(name string) bool {
	return ex.refHeaps[name] || strings.HasSuffix(name, "#arr") || strings.HasSuffix(name, "#ref")
}

// freshHeapVal creates an unknown heap component (or an unknown part of one) of the given
// sort. For reference-valued components the well-typedness bound is attached: every reference
// it holds designates an object that exists now (root <= current watermark).
func (ex *Exec) freshHeapVal(st *State, name, base, sort string) Term {
	t := ex.D.Fresh(base, sort)
	if !ex.isRefHeap(name) {
		return t
	}
	switch {
	case sort == SInt:
		st.Assume(Le(App(SInt, "root", t), st.Top))
	case sort == ArrSort(SInt):
		st.Assume(Term{fmt.Sprintf("(forall ((r Int)) (! (<= (root (select %s r)) %s) :pattern ((select %s r))))", t.S, st.Top.S, t.S), SBool})
	default:
		if k, ok := innerKeySort(sort); ok {
			st.Assume(Term{fmt.Sprintf("(forall ((a Int) (i %s)) (! (<= (root (select (select %s a) i)) %s) :pattern ((select (select %s a) i))))", k, t.S, st.Top.S, t.S), SBool})
		} else if strings.HasPrefix(sort, "(Array ") && strings.HasSuffix(sort, " Int)") {
			// one level with a non-Int key (the inner array of a map heap)
			k := strings.TrimSuffix(strings.TrimPrefix(sort, "(Array "), " Int)")
			if !strings.ContainsAny(k, " ()") {
				st.Assume(Term{fmt.Sprintf("(forall ((i %s)) (! (<= (root (select %s i)) %s) :pattern ((select %s i))))", k, t.S, st.Top.S, t.S), SBool})
			}
		}
	}
	return t
}

func isRefComp(t types.Type, c comp) bool {
	switch c.Suffix {
	case "#arr", "#ref":
		return true
	case "":
		return kindOf(t) == KRef
	}
	return false
}

var freshSymRe = regexp.MustCompile(`!([0-9]+)`)

// headerValid reports whether a term only mentions symbols that existed
// before the discovery run started.
func (ex *Exec) headerValid(t Term) bool {
	for _, m := range freshSymRe.FindAllStringSubmatch(t.S, -1) {
		n, _ := strconv.Atoi(m[1])
		if n > ex.disc.watermark {
			return false
		}
	}
	return true
}

var allocSymRe = regexp.MustCompile(`^(?:ref|arr|box|map|chan)!([0-9]+)$`)

// freshSince: the reference is (an interior reference of) an object allocated after the watermark.
func (ex *Exec) freshSince(t Term, watermark int) bool {
	s := t.S
	for strings.HasPrefix(s, "(sub.") || strings.HasPrefix(s, "(elem.") || strings.HasPrefix(s, "(mapelem.") {
		// (f base ...) -> base
		i := strings.Index(s, " ")
		if i < 0 {
			return false
		}
		rest := s[i+1 : len(s)-1]
		if strings.HasPrefix(rest, "(") {
			j := matchParen(rest, 0)
			if j < 0 {
				return false
			}
			s = rest[:j+1]
		} else {
			if k := strings.Index(rest, " "); k >= 0 {
				rest = rest[:k]
			}
			s = rest
		}
	}
	m := allocSymRe.FindStringSubmatch(s)
	if m == nil {
		// the result of a callee whose contract says "fresh" is an allocation as well
		if n, ok := ex.freshRes[s]; ok {
			return n > watermark
		}
		return false
	}
	n, _ := strconv.Atoi(m[1])
	return n > watermark
}

func (ex *Exec) recordWrite(heap string, kind LocKind, ref Term, sort string) {
	if ex.disc == nil {
		return
	}
	ex.disc.writes = append(ex.disc.writes, writeRec{heap, kind, ref, sort, ex.headerValid(ref), ex.freshSince(ref, ex.disc.watermark)})
}

func (ex *Exec) loadLoc(st *State, l Loc) Val {
	switch l.Kind {
	case LCell:
		fr := st.Frames[l.Frame]
		if v, ok := fr.Cells[l.Alloc]; ok {
			return v
		}
		v := ex.zeroVal(st, l.Typ)
		fr.Cells[l.Alloc] = v
		return v
	case LCellPath:
		fr := st.Frames[l.Frame]
		v, ok := fr.Cells[l.Alloc]
		if !ok {
			v = ex.zeroVal(st, deref(l.Alloc.Type()))
			fr.Cells[l.Alloc] = v
		}
		for _, i := range l.Path {
			sv, ok := v.(*StructV)
			if !ok {
				ex.unsupported("field path into a non-struct local value")
				return ex.zeroVal(st, l.Typ)
			}
			v = sv.F[i]
		}
		return v
	case LGlobal:
		if v, ok := st.Globals[l.Global]; ok {
			return v
		}
		gname := l.Global.Pkg.Pkg.Name() + "." + l.Global.Name()
		var v Val
		if kindOf(l.Typ) == KIface || kindOf(l.Typ) == KRef {
			// library/package globals are fixed objects: one constant per global, so that every
			// read (in any state) yields the same value
			cs := leafComps(l.Typ)
			ts := make([]Term, len(cs))
			for i, c := range cs {
				ts[i] = ex.D.Const("G:"+gname+c.Suffix, c.Sort)
			}
			v = unflatten(l.Typ, ts)
			ex.assumeTyped(st, v, l.Typ)
		} else {
			v = ex.symbolic(st, "G:"+gname, l.Typ)
		}
		for _, g := range ex.ctx.specs.NonNil {
			if g == gname {
				switch x := v.(type) {
				case IfaceV:
					st.Assume(Neq(x.Tag, IntT(0)))
				case Term:
					st.Assume(Neq(x, IntT(0)))
				}
			}
		}
		st.Globals[l.Global] = v
		return v
	case LHeap1:
		cs := leafComps(l.Typ)
		ts := make([]Term, len(cs))
		for i, c := range cs {
			if isRefComp(l.Typ, c) {
				ex.refHeap(l.Heap+c.Suffix, false)
			}
			ts[i] = Select(ex.heap(st, l.Heap+c.Suffix, ArrSort(c.Sort)), l.Ref)
		}
		return unflatten(l.Typ, ts)
	case LHeap2:
		cs := leafComps(l.Typ)
		ts := make([]Term, len(cs))
		for i, c := range cs {
			if isRefComp(l.Typ, c) {
				ex.refHeap(l.Heap+c.Suffix, true)
			}
			ts[i] = Select(Select(ex.heap(st, l.Heap+c.Suffix, Arr2Sort(c.Sort)), l.Ref), l.Idx)
		}
		return unflatten(l.Typ, ts)
	case LStruct:
		s := structOf(l.Typ)
		sv := &StructV{T: s, F: make([]Val, s.NumFields())}
		for i := 0; i < s.NumFields(); i++ {
			fl, ok := ex.fieldLoc(l.Typ, l.Ref, i)
			if !ok {
				sv.F[i] = Term{"0", SInt}
				continue
			}
			sv.F[i] = ex.loadLoc(st, fl)
		}
		return sv
	}
	panic("loadLoc")
}

func (ex *Exec) storeLoc(st *State, l Loc, v Val) {
	switch l.Kind {
	case LCell:
		st.Frames[l.Frame].Cells[l.Alloc] = v
	case LCellPath:
		fr := st.Frames[l.Frame]
		root, ok := fr.Cells[l.Alloc]
		if !ok {
			root = ex.zeroVal(st, deref(l.Alloc.Type()))
		}
		var set func(cur Val, path []int) Val
		set = func(cur Val, path []int) Val {
			if len(path) == 0 {
				return v
			}
			sv, ok := cur.(*StructV)
			if !ok {
				ex.unsupported("field store into a non-struct local value")
				return cur
			}
			n := &StructV{T: sv.T, F: append([]Val(nil), sv.F...)}
			n.F[path[0]] = set(sv.F[path[0]], path[1:])
			return n
		}
		fr.Cells[l.Alloc] = set(root, l.Path)
	case LGlobal:
		st.Globals[l.Global] = v
		if ex.disc != nil {
			ex.disc.globals[l.Global] = true
		}
	case LHeap1:
		cs := leafComps(l.Typ)
		ts := flatten(ex.coerce(v, l.Typ))
		for i, c := range cs {
			name := l.Heap + c.Suffix
			h := ex.heap(st, name, ArrSort(c.Sort))
			st.Heaps[name] = Store(h, l.Ref, ts[i])
			ex.recordWrite(name, LHeap1, l.Ref, ArrSort(c.Sort))
		}
	case LHeap2:
		cs := leafComps(l.Typ)
		ts := flatten(ex.coerce(v, l.Typ))
		for i, c := range cs {
			name := l.Heap + c.Suffix
			h := ex.heap(st, name, Arr2Sort(c.Sort))
			st.Heaps[name] = Store(h, l.Ref, Store(Select(h, l.Ref), l.Idx, ts[i]))
			ex.recordWrite(name, LHeap2, l.Ref, Arr2Sort(c.Sort))
		}
	case LStruct:
		s := structOf(l.Typ)
		sv, ok := v.(*StructV)
		if !ok {
			ex.unsupported("store of non-struct value %T into struct location", v)
			return
		}
		for i := 0; i < s.NumFields(); i++ {
			fl, ok := ex.fieldLoc(l.Typ, l.Ref, i)
			if !ok {
				continue
			}
			ex.storeLoc(st, fl, sv.F[i])
		}
	}
}

// coerce makes sure a value has the leaf shape of type t (nil constants arrive as Int 0).
func (ex *Exec) coerce(v Val, t types.Type) Val {
	switch kindOf(t) {
	case KSlice:
		if _, ok := v.(SliceV); !ok {
			z := IntT(0)
			return SliceV{z, z, z, z}
		}
	case KIface:
		if _, ok := v.(IfaceV); !ok {
			return IfaceV{IntT(0), IntT(0)}
		}
	case KRef:
		if a, ok := v.(AddrV); ok {
			ex.unsupported("address of a non-struct location stored as a value (%s)", a.L.Heap)
			return IntT(0)
		}
		if c, ok := v.(*ClosureV); ok {
			return ex.closureRef(c)
		}
	}
	return v
}

func (ex *Exec) closureRef(c *ClosureV) Term {
	return ex.D.Const("fn:"+c.Fn.String(), SInt)
}

// fieldLoc gives the location of field i of the struct of type t living at ref.
func (ex *Exec) fieldLoc(t types.Type, ref Term, i int) (Loc, bool) {
	s := structOf(t)
	f := s.Field(i)
	name := typeKey(t) + "." + f.Name()
	switch kindOf(f.Type()) {
	case KStruct:
		return Loc{Kind: LStruct, Ref: ex.subRef(name, ref), Typ: f.Type()}, true
	case KArray:
		// arrays embedded in structs: the array lives at a derived reference; as a value it is that reference
		return Loc{Kind: LHeap1, Heap: name, Ref: ref, Typ: types.Typ[types.Int]}, true
	}
	return Loc{Kind: LHeap1, Heap: name, Ref: ref, Typ: f.Type()}, true
}

func (ex *Exec) elemLoc(elem types.Type, arr, idx Term) Loc {
	switch kindOf(elem) {
	case KStruct:
		return Loc{Kind: LStruct, Ref: ex.elemRef(typeKey(elem), arr, idx), Typ: elem}
	case KArray:
		return Loc{Kind: LHeap2, Heap: "[]" + typeKey(elem), Ref: arr, Idx: idx, Typ: types.Typ[types.Int]}
	}
	return Loc{Kind: LHeap2, Heap: "[]" + typeKey(elem), Ref: arr, Idx: idx, Typ: elem}
}

func (ex *Exec) kindID(name string) int {
	if id, ok := ex.subKinds[name]; ok {
		return id
	}
	id := len(ex.subKinds) + 1
	ex.subKinds[name] = id
	return id
}

func (ex *Exec) subRef(name string, ref Term) Term {
	fn := "sub:" + name
	sym := smtSym(fn)
	if !ex.D.seen[sym] {
		ex.D.Fun(fn, []string{SInt}, SInt)
		k := ex.kindID(fn)
		ex.D.lines = append(ex.D.lines, declLine{sym, fmt.Sprintf(
			"(assert (forall ((r Int)) (! (and (= (subbase (%s r)) r) (= (subkind (%s r)) %d) (< (%s r) 0) (= (root (%s r)) (root r))) :pattern ((%s r)))))",
			sym, sym, k, sym, sym, sym)})
	}
	return App(SInt, sym, ref)
}

func (ex *Exec) elemRef(name string, arr, idx Term) Term {
	fn := "elem:" + name
	sym := smtSym(fn)
	if !ex.D.seen[sym] {
		ex.D.Fun(fn, []string{SInt, SInt}, SInt)
		k := ex.kindID(fn)
		ex.D.lines = append(ex.D.lines, declLine{sym, fmt.Sprintf(
			"(assert (forall ((a Int) (i Int)) (! (and (= (subbase (%s a i)) a) (= (subidx (%s a i)) i) (= (subkind (%s a i)) %d) (< (%s a i) 0) (= (root (%s a i)) (root a))) :pattern ((%s a i)))))",
			sym, sym, sym, k, sym, sym, sym)})
	}
	return App(SInt, sym, arr, idx)
}

// ---- allocation -------------------------------------------------------------------

func (ex *Exec) freshRef(st *State, base string) Term {
	r := ex.D.Fresh(base, SInt)
	st.Assume(Gt(r, st.Top))
	st.Top = r
	if ex.disc != nil {
		ex.disc.allocated = true
	}
	return r
}

func zeroTerm(sort string) Term {
	switch sort {
	case SInt:
		return IntT(0)
	case SBool:
		return False
	case SBytes:
		return Term{"bempty", SBytes}
	case SF64:
		return Term{"f64zero", SF64}
	}
	panic("zeroTerm " + sort)
}

func (ex *Exec) zeroVal(st *State, t types.Type) Val {
	switch kindOf(t) {
	case KStruct:
		s := structOf(t)
		sv := &StructV{T: s, F: make([]Val, s.NumFields())}
		for i := range sv.F {
			sv.F[i] = ex.zeroVal(st, s.Field(i).Type())
		}
		return sv
	case KArray:
		return ex.newArray(st, t.Underlying().(*types.Array).Elem(), true)
	case KTuple:
		return TupleV{}
	}
	cs := leafComps(t)
	ts := make([]Term, len(cs))
	for i, c := range cs {
		ts[i] = zeroTerm(c.Sort)
	}
	return unflatten(t, ts)
}

// newArray allocates a fresh backing array; zeroed when zero is set.
func (ex *Exec) newArray(st *State, elem types.Type, zero bool) Term {
	arr := ex.freshRef(st, "arr")
	if !zero {
		return arr
	}
	switch kindOf(elem) {
	case KStruct:
		// element structs live at elem references; leave their fields to a quantified zero fact
		ex.assumeZeroStructElems(st, elem, arr)
		return arr
	case KArray:
		return arr
	}
	for _, c := range leafComps(elem) {
		name := "[]" + typeKey(elem) + c.Suffix
		h := ex.heap(st, name, Arr2Sort(c.Sort))
		if c.Sort == SF64 || c.Sort == SBytes {
			// cvc5 only accepts value constants in constant arrays; the zero of an uninterpreted
			// sort is a declared constant: state the zero content with a quantified fact instead
			z := ex.D.Fresh("zeroarr", ArrSort(c.Sort))
			st.Assume(Term{fmt.Sprintf("(forall ((j Int)) (! (= (select %s j) %s) :pattern ((select %s j))))", z.S, zeroTerm(c.Sort).S, z.S), SBool})
			st.Heaps[name] = Store(h, arr, z)
			continue
		}
		st.Heaps[name] = Store(h, arr, Term{fmt.Sprintf("((as const %s) %s)", ArrSort(c.Sort), zeroTerm(c.Sort).S), ArrSort(c.Sort)})
	}
	return arr
}

func (ex *Exec) assumeZeroStructElems(st *State, elem types.Type, arr Term) {
	s := structOf(elem)
	for i := 0; i < s.NumFields(); i++ {
		ft := s.Field(i).Type()
		if k := kindOf(ft); k == KStruct || k == KArray {
			continue // nested: not zero-initialised in the model (left unconstrained)
		}
		for _, c := range leafComps(ft) {
			name := typeKey(elem) + "." + s.Field(i).Name() + c.Suffix
			h := ex.heap(st, name, ArrSort(c.Sort))
			er := ex.elemRef(typeKey(elem), arr, Term{"i", SInt})
			st.Assume(Term{fmt.Sprintf("(forall ((i Int)) (! (= (select %s %s) %s) :pattern (%s)))", h.S, er.S, zeroTerm(c.Sort).S, er.S), SBool})
		}
	}
}

// newStruct allocates a fresh struct reference with zeroed fields.
func (ex *Exec) newStruct(st *State, t types.Type) Term {
	r := ex.freshRef(st, "ref")
	ex.zeroStructAt(st, t, r)
	ex.zeroGhosts(st, t, r)
	return r
}

func (ex *Exec) zeroStructAt(st *State, t types.Type, r Term) {
	s := structOf(t)
	for i := 0; i < s.NumFields(); i++ {
		fl, ok := ex.fieldLoc(t, r, i)
		if !ok {
			continue
		}
		if fl.Kind == LStruct {
			ex.zeroStructAt(st, fl.Typ, fl.Ref)
			ex.zeroGhosts(st, fl.Typ, fl.Ref)
			continue
		}
		ex.storeLoc(st, fl, ex.zeroVal(st, fl.Typ))
	}
}

// zeroGhosts: ghost state declared on the type starts at its zero value
func (ex *Exec) zeroGhosts(st *State, t types.Type, r Term) {
	for _, k := range ghostTypeKeys(t) {
		for _, g := range ex.ctx.specs.Ghosts {
			if g.Type == k {
				if sort, ok := logicalSort(g.Sort); ok && (sort == SInt || sort == SBool || sort == SBytes) {
					name := "ghost:" + g.Type + "." + g.Name
					st.Heaps[name] = Store(ex.heap(st, name, ArrSort(sort)), r, zeroTerm(sort))
					ex.recordWrite(name, LHeap1, r, ArrSort(sort))
				}
			}
		}
	}
}

// symbolic creates an unconstrained value of type t named base (type invariants assumed).
func (ex *Exec) symbolic(st *State, base string, t types.Type) Val {
	switch kindOf(t) {
	case KStruct:
		s := structOf(t)
		sv := &StructV{T: s, F: make([]Val, s.NumFields())}
		for i := range sv.F {
			sv.F[i] = ex.symbolic(st, base+"."+s.Field(i).Name(), s.Field(i).Type())
		}
		return sv
	case KTuple:
		tu := t.(*types.Tuple)
		tv := make(TupleV, tu.Len())
		for i := range tv {
			tv[i] = ex.symbolic(st, fmt.Sprintf("%s.%d", base, i), tu.At(i).Type())
		}
		return tv
	case KArray:
		return ex.D.Fresh(base, SInt)
	}
	cs := leafComps(t)
	ts := make([]Term, len(cs))
	for i, c := range cs {
		ts[i] = ex.D.Fresh(base+c.Suffix, c.Sort)
	}
	v := unflatten(t, ts)
	ex.assumeTyped(st, v, t)
	return v
}

// assumeTyped adds the invariants every well-typed Go value satisfies.
func (ex *Exec) assumeTyped(st *State, v Val, t types.Type) {
	switch kindOf(t) {
	case KInt:
		x, ok := v.(Term)
		if !ok {
			return
		}
		if _, isNum := x.numeral(); isNum {
			return
		}
		if lo, hi, ok := intRange(t); ok {
			st.Assume(And(Le(lo, x), Lt(x, hi)))
		}
	case KRef:
		x, ok := v.(Term)
		if !ok {
			return
		}
		if _, isNum := x.numeral(); isNum {
			return
		}
		st.Assume(Le(App(SInt, "root", x), st.Top))
	case KSlice:
		s, ok := v.(SliceV)
		if !ok {
			return
		}
		st.Assume(And(Le(IntT(0), s.Off), Le(IntT(0), s.Len), Le(s.Len, s.Cap), Ge(s.Arr, IntT(0)), Le(s.Arr, st.Top),
			Implies(Eq(s.Arr, IntT(0)), And(Eq(s.Cap, IntT(0)), Eq(s.Off, IntT(0))))))
	case KIface:
		i, ok := v.(IfaceV)
		if !ok {
			return
		}
		st.Assume(And(Ge(i.Tag, IntT(0)), Implies(Eq(i.Tag, IntT(0)), Eq(i.Ref, IntT(0))), Le(App(SInt, "root", i.Ref), st.Top)))
	case KString:
		// blen >= 0 is an axiom
	case KStruct:
		if sv, ok := v.(*StructV); ok {
			for i, f := range sv.F {
				ex.assumeTyped(st, f, sv.T.Field(i).Type())
			}
		}
	}
}
