package main

import "time"

func runProperty(ctx *Ctx, o *Options, t0 time.Time) int { return 2 }
