package main

import (
	"encoding/json"
	"fmt"
	"os"
	"os/exec"
	"path/filepath"
	"regexp"
	"sort"
	"strconv"
	"strings"
	"sync"
	"time"
)

type KnownFinding struct {
	Property   string `json:"property"`
	Obligation string `json:"obligation"`
	Witness    string `json:"witness"`
	Status     string `json:"status"` // open | fixed
	Commit     string `json:"commit,omitempty"`
	What       string `json:"what"`
	Class      string `json:"class,omitempty"` // witness class a bounded stand-in can recognise and skip
}

type oblReport struct {
	Name      string   `json:"name"`
	Instances int      `json:"instances"`
	Result    string   `json:"result"`
	Backends  []string `json:"backends"`
	SolverS   float64  `json:"solver_s"`
	Clause    string   `json:"clause,omitempty"`
	Where     string   `json:"where,omitempty"`
	SMTBytes  int      `json:"smt_bytes,omitempty"`
}

type funcResult struct {
	key  string
	ex   *Exec
	skip string
}

func hasProp(list []string, p string) bool {
	for _, x := range list {
		if x == p {
			return true
		}
	}
	return false
}

func contractServes(fc *FuncContract, p string) bool {
	if hasProp(fc.Props, p) {
		return true
	}
	for _, c := range fc.Ensures {
		if hasProp(c.Props, p) {
			return true
		}
	}
	for _, l := range fc.Loops {
		for _, c := range l.Invs {
			if hasProp(c.Props, p) {
				return true
			}
		}
	}
	for _, cs := range fc.Branches {
		for _, c := range cs {
			if hasProp(c.Props, p) {
				return true
			}
		}
	}
	return false
}

func loadKnown(verif string) []KnownFinding {
	var k []KnownFinding
	data, err := os.ReadFile(filepath.Join(verif, "known_findings.json"))
	if err == nil {
		json.Unmarshal(data, &k)
	}
	return k
}

var unsafeName = regexp.MustCompile(`[^A-Za-z0-9_.-]+`)

func runProperty(ctx *Ctx, o *Options, t0 time.Time) int {
	sp := ctx.specs
	P := o.Prop
	seed := 0
	if s := os.Getenv("VERIF_SEED"); s != "" {
		seed, _ = strconv.Atoi(s)
	}
	var keys, boundedKeys []string
	var trustedRepo []string
	for k, fc := range sp.Funcs {
		if fc.Extern || fc.Iface {
			continue
		}
		if contractServes(fc, P) {
			boundedKeys = append(boundedKeys, k)
			if fc.Trusted {
				trustedRepo = append(trustedRepo, k)
				continue
			}
			keys = append(keys, k)
		}
	}
	sort.Strings(keys)
	sort.Strings(boundedKeys)
	sort.Strings(trustedRepo)
	evPath := filepath.Join(o.Verif, "evidence", P+".json")
	os.MkdirAll(filepath.Dir(evPath), 0o755)
	os.Remove(evPath)
	if len(keys) == 0 {
		fmt.Printf("UNDECIDED property=%s reason=no-contracts\n", P)
		return 2
	}
	tmp, _ := os.MkdirTemp("", "gcv")
	defer os.RemoveAll(tmp)
	solver := &Solver{Dir: tmp, Timeout: o.Timeout, All: o.Tier == "thorough"}
	if os.Getenv("GCV_CACHE") != "" {
		solver.cacheDir = filepath.Join(o.Verif, ".cache", "smt")
	}
	// 1. generate obligations (functions in parallel)
	var tasks []vtask
	for _, key := range keys {
		tasks = append(tasks, ctx.expandKey(key, sp.Funcs[key])...)
	}
	results := make([]*funcResult, len(tasks))
	var wg sync.WaitGroup
	sem := make(chan struct{}, 8)
	for i, t := range tasks {
		wg.Add(1)
		go func(i int, t vtask) {
			defer wg.Done()
			sem <- struct{}{}
			defer func() { <-sem }()
			fr := &funcResult{key: t.key}
			if t.nameAs != "" {
				fr.key = t.nameAs
			}
			results[i] = fr
			if t.skip != "" {
				fr.skip = t.skip
				return
			}
			ex := VerifyFuncAs(ctx, t.fn, t.fc, true, true, t.nameAs)
			for _, n := range t.notes {
				ex.assumed[n] = true
			}
			fr.ex = ex
		}(i, t)
	}
	wg.Wait()
	var all []*Obligation
	for _, fr := range results {
		if fr.ex != nil {
			all = append(all, fr.ex.obls...)
		}
	}
	solver.SolveAll(sp, all, o.Workers)
	if cex := ctx.confinement(P); cex != nil {
		results = append(results, &funcResult{key: "confined", ex: cex})
	}

	// 2. judge
	known := loadKnown(o.Verif)
	var undecided []string
	var violations []string
	var knownHit []string
	var notes []string
	var reports []oblReport
	externs := map[string]bool{}
	assumed := map[string]bool{}
	inlined := map[string]bool{}
	var funcs []string
	nObl, nDis := 0, 0
	var solverTime float64
	backendCount := map[string]int{}
	var samples []interface{}
	for _, fr := range results {
		if fr.skip != "" {
			undecided = append(undecided, fr.skip)
			continue
		}
		ex := fr.ex
		funcs = append(funcs, fr.key)
		for e := range ex.externs {
			externs[e] = true
		}
		for e := range ex.assumed {
			assumed[e] = true
		}
		for e := range ex.inlined {
			inlined[e] = true
		}
		for _, e := range ex.errs {
			undecided = append(undecided, fr.key+": "+e)
		}
		if ex.retCount == 0 && len(ex.errs) == 0 && !(ex.contract != nil && ex.contract.NeverReturns) {
			undecided = append(undecided, fr.key+": vacuity: no return path was reached")
		}
		for _, g := range groupObls(ex.obls) {
			first := firstObl(ex.obls, g.name)
			if first.Kind == "canary" {
				// must NOT be provable: at least one instance not unsat
				if len(g.fail) == 0 {
					undecided = append(undecided, "vacuity: "+g.name+" (assumptions are contradictory)")
				}
				continue
			}
			mine := hasProp(first.Props, P) || len(first.Props) == 0
			var bs []string
			for b := range g.back {
				if b != "" {
					bs = append(bs, b)
					backendCount[b] += 1
				}
			}
			sort.Strings(bs)
			res := "discharged"
			if len(g.fail) > 0 {
				res = "failed:" + g.fail[0].Result.Status
			}
			solverTime += g.secs
			if !mine {
				if len(g.fail) > 0 {
					notes = append(notes, fmt.Sprintf("NOTE other-property obligation failed (%s): %s", strings.Join(first.Props, ","), g.name))
				}
				continue
			}
			nObl++
			rep := oblReport{Name: g.name, Instances: g.n, Result: res, Backends: bs, SolverS: round3(g.secs), Clause: first.Src, Where: first.Where}
			if first.Result != nil {
				rep.SMTBytes = first.Result.Size
			}
			reports = append(reports, rep)
			if len(samples) < 4 && first.Result != nil && first.Result.Backend != "constant-folding" {
				samples = append(samples, map[string]interface{}{"obligation": g.name, "clause": first.Src, "instances": g.n, "smt_bytes": first.Result.Size, "backend": first.Result.Backend})
			}
			if len(g.fail) == 0 {
				nDis++
				continue
			}
			// failed: known finding?
			isKnown := false
			for _, k := range known {
				if k.Property == P && k.Status == "open" && k.Obligation == g.name {
					isKnown = true
					knownHit = append(knownHit, fmt.Sprintf("KNOWN-FINDING: property=%s %s %s", P, g.name, k.What))
				}
			}
			if isKnown {
				nDis++ // accounted for (listed finding), not counted as a violation
				continue
			}
			if len(ex.errs) > 0 {
				// the contract of this function could not be bound completely (or a construct is
				// unsupported): a failed obligation here is a consequence of that, not a verdict
				undecided = append(undecided, fr.key+": obligation "+g.name+" not decided because the contract did not bind")
				continue
			}
			path := writeReplay(ctx, o, solver, P, g, first)
			violations = append(violations, path)
		}
	}
	bReports, bViol, bKnown := runBounded(o, sp, P, boundedKeys, known)
	violations = append(violations, bViol...)
	knownHit = append(knownHit, bKnown...)
	sort.Strings(undecided)
	wall := time.Since(t0).Seconds()
	// 3. evidence
	var trusted []string
	trusted = append(trusted, "go/packages + go/ssa (x/tools v0.29.0, naive form) build the IR of /repo's working tree faithfully",
		"gcv's SSA-to-SMT encoding (this repository, engine/) and its axioms for byte strings (specs/00_builtin.spec)",
		"z3 5.1.0 / z3 4.8.12 / cvc5 1.0 soundness")
	var ext []string
	for e := range externs {
		ext = append(ext, e)
	}
	sort.Strings(ext)
	var ass []string
	ass = append(ass, "machine integers treated as mathematical integers except unsigned subtraction, %, /, shifts by constants, narrowing and sign conversions, and multiplication of a 64-bit value by a constant >= 65536 (exact wrap-around)",
		"floating point operations are uninterpreted (no rounding model)",
		"each function is verified as sequential code; goroutines are not interleaved",
		"calls to logrus, fmt.Print* and metrics timers/histograms are erased; log.IsLevelEnabled is taken as false",
		"method receivers are non-nil at entry of the verified function")
	for a := range assumed {
		ass = append(ass, a)
	}
	for _, e := range ext {
		ass = append(ass, "assumed contract (extern): "+e)
	}
	for _, e := range trustedRepo {
		ass = append(ass, "repo function with a trusted (unverified) contract: "+e)
	}
	sort.Strings(ass[5:])
	var inl []string
	for e := range inlined {
		inl = append(inl, e)
	}
	sort.Strings(inl)
	if len(samples) == 0 {
		samples = append(samples, map[string]interface{}{"note": "no solver-discharged obligation in this run"})
	}
	ev := map[string]interface{}{
		"property_id": P,
		"tier":        o.Tier,
		"seed":        seed,
		"level":       "proof",
		"coverage": map[string]interface{}{
			"obligations":               nObl,
			"discharged":                nDis,
			"checker_cmd":               fmt.Sprintf("/verif/bin/gcv -prop %s -tier %s (obligations discharged by z3-new / z3 / cvc5, timeout %ds per back end)", P, o.Tier, o.Timeout),
			"trusted_base":              trusted,
			"functions_under_contract":  funcs,
			"inlined_uncontracted":      inl,
			"externs_assumed":           ext,
			"per_obligation":            reports,
			"obligation_instances":      len(all),
			"backends":                  backendCount,
			"solver_s":                  round3(solverTime),
			"samples":                   samples,
			"bounded_standins":          bReports,
			"known_findings_reproduced": knownHit,
			"undecided":                 undecided,
			"contract_files":            shortPaths(sp.Files),
		},
		"assumptions": ass,
		"wall_s":      round3(wall),
		"violations":  len(violations),
	}
	data, _ := json.MarshalIndent(ev, "", " ")
	os.WriteFile(evPath, data, 0o644)
	// 4. verdict lines
	for _, n := range notes {
		fmt.Println(n)
	}
	for _, k := range knownHit {
		fmt.Println(k)
	}
	fmt.Printf("property %s: %d functions, %d obligations (%d instances), %d discharged, %.1fs\n", P, len(funcs), nObl, len(all), nDis, wall)
	if len(violations) > 0 {
		for _, v := range violations {
			fmt.Println(v)
		}
		return 1
	}
	if len(undecided) > 0 {
		for _, u := range undecided {
			fmt.Printf("UNDECIDED property=%s reason=%s\n", P, u)
		}
		return 2
	}
	if nObl == 0 {
		fmt.Printf("UNDECIDED property=%s reason=zero-obligations\n", P)
		return 2
	}
	return 0
}

func shortPaths(ps []string) []string {
	var out []string
	for _, p := range ps {
		out = append(out, shortPath(p))
	}
	return out
}

func round3(f float64) float64 { return float64(int(f*1000+0.5)) / 1000 }

func firstObl(obls []*Obligation, name string) *Obligation {
	var first *Obligation
	for _, o := range obls {
		if o.Name == name {
			if first == nil {
				first = o
			}
			if o.Result != nil && o.Result.Status != "unsat" {
				return o
			}
		}
	}
	return first
}

// writeReplay records a failed obligation, looks for a candidate model (the query without
// quantified assumptions), runs the per-function replay harness on the real code and returns
// the VIOLATION line.
func writeReplay(ctx *Ctx, o *Options, solver *Solver, P string, g *group, ob *Obligation) string {
	dir := filepath.Join(o.Verif, "replay", P)
	os.MkdirAll(dir, 0o755)
	path := filepath.Join(dir, unsafeName.ReplaceAllString(g.name, "_")+".json")
	rec := map[string]interface{}{
		"property":   P,
		"obligation": g.name,
		"clause":     ob.Src,
		"where":      ob.Where,
		"solver":     ob.Result.Tried,
		"status":     ob.Result.Status,
		"output":     ob.Result.Output,
		"path_trace": ob.Trace,
	}
	model := ob.Result.Model
	if model == "" {
		model = candidateModel(ctx.specs, solver, ob)
		rec["model_kind"] = "candidate (quantified assumptions dropped)"
	} else {
		rec["model_kind"] = "solver model"
	}
	vals := modelValues(model)
	rec["model"] = vals
	confirmed, out, cmd := runHarness(o, ob, vals)
	rec["replay_cmd"] = cmd
	rec["replay_output"] = out
	rec["confirmed_on_real_code"] = confirmed
	data, _ := json.MarshalIndent(rec, "", " ")
	os.WriteFile(path, data, 0o644)
	line := fmt.Sprintf("VIOLATION property=%s replay=%s obligation=%s", P, path, g.name)
	if !confirmed {
		line += " no-failing-input-found"
	}
	return line
}

func candidateModel(sp *Specs, solver *Solver, ob *Obligation) string {
	q := buildQuery(sp, ob, true)
	var keep []string
	for _, l := range strings.Split(q, "\n") {
		if strings.HasPrefix(l, "(assert") && (strings.Contains(l, "(forall ") || strings.Contains(l, "(exists ")) {
			continue
		}
		if strings.HasPrefix(l, "(check-sat)") {
			continue
		}
		keep = append(keep, l)
	}
	keep = append(keep, "(check-sat)", "(get-model)")
	file := filepath.Join(solver.Dir, fmt.Sprintf("cand%d.smt2", time.Now().UnixNano()))
	os.WriteFile(file, []byte(strings.Join(keep, "\n")), 0o644)
	defer os.Remove(file)
	status, out, _ := runSolver(solvers[0], file, 10)
	if status == "sat" {
		return out
	}
	return ""
}

// modelValues extracts the integer/bool constants of a model that name parameters (p.*) and
// results, as a flat map usable by the replay harnesses.
func modelValues(model string) map[string]string {
	vals := map[string]string{}
	if model == "" {
		return vals
	}
	for _, e := range parseSExps(model) {
		for _, d := range e.List {
			if d.head() != "define-fun" || len(d.List) != 5 {
				continue
			}
			name := d.List[1].Atom
			if len(d.List[2].List) != 0 {
				continue
			}
			if !(strings.HasPrefix(name, "p.") || strings.HasPrefix(name, "res") || strings.HasPrefix(name, "loop.")) {
				continue
			}
			vals[name] = d.List[4].String()
		}
	}
	return vals
}

// runGoTest runs one test of /verif/harness/<pkg>/replay_test.go inside the real package
// (overlay-injected, nothing is written to /repo).
func runGoTest(o *Options, pkg, test string, env []string, timeout string) (out string, cmdStr string, found bool) {
	hfile := filepath.Join(o.Verif, "harness", pkg, "replay_test.go")
	if _, err := os.Stat(hfile); err != nil {
		return "no harness for package " + pkg, "", false
	}
	pkgDir := ""
	if pkg == "main" {
		pkgDir = filepath.Join(o.Repo, "cmd", "carbon-relay-ng")
	}
	filepath.Walk(o.Repo, func(p string, info os.FileInfo, err error) error {
		if err == nil && info.IsDir() && filepath.Base(p) == pkg && pkgDir == "" && !strings.Contains(p, "/vendor/") && !strings.Contains(p, "/.git/") {
			pkgDir = p
		}
		return nil
	})
	if pkgDir == "" {
		return "package directory not found", "", false
	}
	tmp, _ := os.MkdirTemp("", "gcvreplay")
	defer os.RemoveAll(tmp)
	ov := map[string]interface{}{"Replace": map[string]string{filepath.Join(pkgDir, "zz_verif_replay_test.go"): hfile}}
	ovData, _ := json.Marshal(ov)
	ovFile := filepath.Join(tmp, "ov.json")
	os.WriteFile(ovFile, ovData, 0o644)
	args := []string{"test", "-v", "-overlay", ovFile, "-vet=off", "-count=1", "-timeout", timeout, "-run", "^" + test + "$", "."}
	cmd := exec.Command("go", args...)
	cmd.Dir = pkgDir
	cmd.Env = append(append(os.Environ(), "GOFLAGS=-mod=mod", "GOPROXY=off", "GOSUMDB=off", "GOTOOLCHAIN=local"), env...)
	b, _ := cmd.CombinedOutput()
	out = string(b)
	if len(out) > 6000 {
		// keep every verdict line of the harness; drop the bulk of the log noise in between
		var keep []string
		for _, l := range strings.Split(out, "\n") {
			for _, p := range []string{"KNOWN-FINDING-REPRODUCED", "REPLAY-", "BOUNDED ", "--- ", "ok  \t", "FAIL", "PASS", "panic:"} {
				if strings.HasPrefix(l, p) {
					keep = append(keep, l)
					break
				}
			}
		}
		out = out[:2000] + "\n...\n" + out[len(out)-2000:] + "\n" + strings.Join(keep, "\n") + "\n"
	}
	cmdStr = fmt.Sprintf("cd %s && %s go test -overlay <(echo '%s') -vet=off -count=1 -timeout %s -run '^%s$' .", pkgDir, strings.Join(env, " "), string(ovData), timeout, test)
	return out, cmdStr, true
}

// runHarness replays a failed obligation: the harness of the function's package tries the
// model's values and a small input space on the real function and prints REPLAY-CONFIRMED
// with the concrete failing input when it finds one.
func runHarness(o *Options, ob *Obligation, vals map[string]string) (bool, string, string) {
	parts := strings.Split(ob.Func, ".")
	mv, _ := json.Marshal(vals)
	test := "TestReplay_" + unsafeName.ReplaceAllString(strings.Join(parts[1:], "_"), "_")
	out, cmd, _ := runGoTest(o, parts[0], test, []string{"VERIF_OBLIGATION=" + ob.Name, "VERIF_MODEL=" + string(mv), "VERIF_TIER=" + o.Tier}, "120s")
	return strings.Contains(out, "REPLAY-CONFIRMED"), out, cmd
}

type boundedReport struct {
	Name    string  `json:"name"`
	Bound   string  `json:"bound"`
	Result  string  `json:"result"`
	WallS   float64 `json:"wall_s"`
	Summary string  `json:"summary"`
}

// runBounded runs the bounded stand-ins attached to the contracts of the property.
func runBounded(o *Options, sp *Specs, P string, keys []string, known []KnownFinding) (reports []boundedReport, violations, knownHit []string) {
	for _, key := range keys {
		fc := sp.Funcs[key]
		for _, bd := range fc.Bounded {
			if len(bd.Props) > 0 && !hasProp(bd.Props, P) {
				continue
			}
			name := key + "#bounded:" + bd.Test
			t0 := time.Now()
			timeout := "300s"
			if o.Tier == "thorough" {
				timeout = "1800s"
			}
			var classes []string
			for _, k := range known {
				if k.Property == P && k.Status == "open" && k.Obligation == name && k.Class != "" {
					classes = append(classes, k.Class)
				}
			}
			out, cmd, found := runGoTest(o, strings.Split(key, ".")[0], bd.Test, []string{"VERIF_TIER=" + o.Tier, "VERIF_SEED=" + os.Getenv("VERIF_SEED"), "VERIF_KNOWN=" + strings.Join(classes, ",")}, timeout)
			for _, k := range known {
				if k.Property == P && k.Status == "open" && k.Obligation == name && k.Class != "" && strings.Contains(out, "KNOWN-FINDING-REPRODUCED class="+k.Class) {
					knownHit = append(knownHit, fmt.Sprintf("KNOWN-FINDING: property=%s %s class=%s %s", P, name, k.Class, k.What))
				}
			}
			rep := boundedReport{Name: name, Bound: bd.Bound, WallS: round3(time.Since(t0).Seconds())}
			for _, l := range strings.Split(out, "\n") {
				if strings.HasPrefix(l, "BOUNDED ") {
					rep.Summary = l
				}
			}
			ok := found && strings.Contains(out, "\nok  \t") || strings.HasPrefix(out, "ok  \t")
			if ok && !strings.Contains(out, "REPLAY-CONFIRMED") {
				rep.Result = "held on the whole bounded space"
				reports = append(reports, rep)
				continue
			}
			rep.Result = "violated"
			reports = append(reports, rep)
			isKnown := false
			for _, k := range known {
				if k.Property == P && k.Status == "open" && k.Obligation == name && k.Class == "" {
					isKnown = true
					knownHit = append(knownHit, fmt.Sprintf("KNOWN-FINDING: property=%s %s %s", P, name, k.What))
				}
			}
			if isKnown {
				continue
			}
			dir := filepath.Join(o.Verif, "replay", P)
			os.MkdirAll(dir, 0o755)
			path := filepath.Join(dir, unsafeName.ReplaceAllString(name, "_")+".json")
			confirmed := strings.Contains(out, "REPLAY-CONFIRMED")
			rec := map[string]interface{}{"property": P, "obligation": name, "kind": "bounded stand-in on the real code", "bound": bd.Bound,
				"replay_cmd": cmd, "replay_output": out, "confirmed_on_real_code": confirmed}
			data, _ := json.MarshalIndent(rec, "", " ")
			os.WriteFile(path, data, 0o644)
			line := fmt.Sprintf("VIOLATION property=%s replay=%s obligation=%s", P, path, name)
			if !confirmed {
				line += " no-failing-input-found"
			}
			violations = append(violations, line)
		}
	}
	return
}
