package main

import (
	"bytes"
	"context"
	"crypto/sha256"
	"encoding/hex"
	"encoding/json"
	"fmt"
	"os"
	"os/exec"
	"path/filepath"
	"regexp"
	"strings"
	"sync"
	"time"
)

type SolveResult struct {
	Status  string   `json:"status"` // unsat (discharged), sat (refuted), unknown
	Backend string   `json:"backend"`
	Secs    float64  `json:"solver_s"`
	Model   string   `json:"model,omitempty"`
	Tried   []string `json:"tried,omitempty"`
	Size    int      `json:"smt_bytes"`
	Cached  bool     `json:"cached,omitempty"`
	Output  string   `json:"-"`
}

var tokenRe = regexp.MustCompile(`[^\s()]+`)

// buildQuery assembles the SMT-LIB text of one obligation: prelude, the declarations and
// axioms whose symbols occur, the path condition, and the negated goal.
func buildQuery(sp *Specs, o *Obligation, models bool) string {
	var body strings.Builder
	// small path conditions are rendered inline; large ones (chains of joins) with one definition per join
	r := &pcRenderer{groups: o.Groups, done: map[string][]string{}}
	asserts := r.pc(o.PC)
	if r.size < 100000 {
		asserts = renderPC(o.Groups, o.PC)
	} else {
		for _, d := range r.defs {
			body.WriteString(d)
			body.WriteString("\n")
		}
	}
	for _, a := range asserts {
		body.WriteString("(assert ")
		body.WriteString(a)
		body.WriteString(")\n")
	}
	body.WriteString("(assert (not ")
	body.WriteString(o.Goal.S)
	body.WriteString("))\n")
	if strings.Contains(body.String(), "(bslice ") {
		txt := body.String()
		for _, l := range splitLemmas(txt, boundVars(txt)) {
			body.WriteString(l)
			body.WriteString("\n")
		}
	}
	used := map[string]bool{}
	addTokens := func(s string) {
		for _, t := range tokenRe.FindAllString(s, -1) {
			used[t] = true
		}
	}
	addTokens(body.String())
	// symbols hidden inside spec-level definitions (define-fun) count as used when the defined name is
	defUsed := func() {
		for changed := true; changed; {
			changed = false
			for _, l := range sp.SMT {
				if m := smtFunRe.FindStringSubmatch(l); m != nil && strings.HasPrefix(m[1], "define-fun") && used[m[2]] && !used["\x00"+m[2]] {
					used["\x00"+m[2]] = true
					addTokens(l)
					changed = true
				}
			}
		}
	}
	defUsed()
	// axioms from specs: included when they share a spec-declared symbol with the query (two rounds)
	var axioms []string
	taken := map[int]bool{}
	for round := 0; round < 3; round++ {
		for i, ax := range sp.Axioms {
			if taken[i] {
				continue
			}
			hit := true
			for _, t := range ax.Triggers {
				if !used[t] {
					hit = false
					break
				}
			}
			if hit {
				taken[i] = true
				axioms = append(axioms, ax.Text)
				addTokens(ax.Text)
				defUsed()
			}
		}
	}
	var decls strings.Builder
	// engine declarations (and the per-symbol axioms attached to them), in creation order;
	// iterate because an attached axiom may mention further symbols
	inc := map[int]bool{}
	for changed := true; changed; {
		changed = false
		for i, l := range o.Decls.lines {
			if !inc[i] && used[l.sym] {
				inc[i] = true
				changed = true
				addTokens(l.text)
			}
		}
	}
	for pass := 0; pass < 2; pass++ {
		for i, l := range o.Decls.lines {
			if inc[i] && (strings.HasPrefix(l.text, "(declare") == (pass == 0)) {
				decls.WriteString(l.text)
				decls.WriteString("\n")
			}
		}
	}
	var q strings.Builder
	if models {
		q.WriteString("(set-option :produce-models true)\n")
	}
	q.WriteString("(set-logic ALL)\n")
	for _, l := range sp.SMT {
		// definitions (define-fun / define-fun-rec) only when their symbol is used; recursive
		// definitions slow z3 down considerably even when they are irrelevant
		if m := smtFunRe.FindStringSubmatch(l); m != nil && strings.HasPrefix(m[1], "define-fun") && !used[m[2]] {
			continue
		}
		q.WriteString(l)
		q.WriteString("\n")
	}
	q.WriteString(decls.String())
	for _, a := range axioms {
		q.WriteString(a)
		q.WriteString("\n")
	}
	q.WriteString(body.String())
	q.WriteString("(check-sat)\n")
	return q.String()
}

type solverSpec struct {
	name string
	args func(file string, secs int) []string
}

var solvers = []solverSpec{
	{"z3-5.1.0", func(f string, s int) []string { return []string{"z3-new", "-smt2", fmt.Sprintf("-T:%d", s), f} }},
	{"z3-4.8.12", func(f string, s int) []string { return []string{"z3", "-smt2", fmt.Sprintf("-T:%d", s), f} }},
	{"cvc5-1.0", func(f string, s int) []string {
		return []string{"cvc5", "--lang=smt2", fmt.Sprintf("--tlimit=%d", s*1000), "--enum-inst", "--strings-exp", f}
	}},
}

func runSolver(sv solverSpec, file string, secs int) (status, output string, elapsed float64) {
	args := sv.args(file, secs)
	ctx, cancel := context.WithTimeout(context.Background(), time.Duration(secs+5)*time.Second)
	defer cancel()
	cmd := exec.CommandContext(ctx, args[0], args[1:]...)
	var out bytes.Buffer
	cmd.Stdout = &out
	cmd.Stderr = &out
	t0 := time.Now()
	_ = cmd.Run()
	elapsed = time.Since(t0).Seconds()
	output = out.String()
	first := ""
	for _, l := range strings.Split(output, "\n") {
		// skip solver warnings (z3 prints them before the answer)
		if l = strings.TrimSpace(l); l != "" && !strings.HasPrefix(l, "WARNING") {
			first = l
			break
		}
	}
	switch first {
	case "unsat", "sat":
		return first, output, elapsed
	}
	if first == "unknown" || first == "timeout" || first == "" || strings.Contains(first, "interrupted by timeout") {
		return "unknown", output, elapsed
	}
	return "error", output, elapsed
}

type Solver struct {
	Dir      string
	Timeout  int
	All      bool // thorough: ask every back end
	cacheDir string
	noRetry  bool
	mu       sync.Mutex
	seq      int
}

// solveWith runs the given back ends (indices into solvers) on one obligation, in order,
// stopping at the first definite answer.
func (s *Solver) solveWith(sp *Specs, o *Obligation, which []int, res *SolveResult) *SolveResult {
	q := buildQuery(sp, o, false)
	if res == nil {
		res = &SolveResult{Size: len(q)}
	}
	sum := sha256.Sum256([]byte(q))
	key := hex.EncodeToString(sum[:16])
	if s.cacheDir != "" && len(res.Tried) == 0 {
		if data, err := os.ReadFile(filepath.Join(s.cacheDir, key+".json")); err == nil {
			var c SolveResult
			if json.Unmarshal(data, &c) == nil && c.Status != "" {
				c.Cached = true
				return &c
			}
		}
	}
	s.mu.Lock()
	s.seq++
	n := s.seq
	s.mu.Unlock()
	file := filepath.Join(s.Dir, fmt.Sprintf("q%05d.smt2", n))
	os.WriteFile(file, []byte(q), 0o644)
	keep := false
	defer func() {
		if !keep {
			os.Remove(file)
		}
	}()
	if o.Kind == "canary" {
		// only "not provable" matters: one back end, short timeout
		status, _, el := runSolver(solvers[0], file, 3)
		res.Tried = append(res.Tried, fmt.Sprintf("%s:%s:%.2fs", solvers[0].name, status, el))
		res.Secs = el
		res.Status, res.Backend = status, solvers[0].name
		if status != "unsat" {
			res.Status = "not-provable"
		}
		if os.Getenv("GCV_KEEP") != "" {
			keep = true
		}
		return res
	}
	res.Status = ""
	if strings.Contains(q, "(define-fun-rec ") && len(which) > 1 && !s.All {
		// recursive spec functions: cvc5 decides these quickly where z3 keeps unfolding
		which = []int{2, 0, 1}
	} else if strings.Contains(q, "(define-fun-rec ") && len(which) == 1 && which[0] == 0 {
		which = []int{2}
	}
	for _, i := range which {
		sv := solvers[i]
		status, out, el := runSolver(sv, file, s.Timeout)
		res.Tried = append(res.Tried, fmt.Sprintf("%s:%s:%.2fs", sv.name, status, el))
		res.Secs += el
		if status == "error" {
			res.Output += sv.name + ": " + firstLines(out, 3) + "\n"
			continue
		}
		if status == "unsat" {
			if res.Backend == "" || res.Status != "unsat" {
				res.Backend = sv.name
			} else {
				res.Backend += "+" + sv.name
			}
			res.Status = "unsat"
			if !s.All {
				break
			}
			continue
		}
		if status == "sat" {
			res.Status, res.Backend = "sat", sv.name
			mq := buildQuery(sp, o, true) + "(get-model)\n"
			mfile := file + ".model.smt2"
			os.WriteFile(mfile, []byte(mq), 0o644)
			_, mout, _ := runSolver(solvers[0], mfile, s.Timeout)
			os.Remove(mfile)
			res.Model = mout
			break
		}
		res.Output += sv.name + ": " + firstLines(out, 2) + "\n"
	}
	if res.Status == "" {
		res.Status = "unknown"
	}
	if res.Status != "unsat" || os.Getenv("GCV_KEEPALL") != "" {
		keep = os.Getenv("GCV_KEEP") != ""
	}
	if s.cacheDir != "" && res.Status == "unsat" {
		if data, err := json.Marshal(res); err == nil {
			os.MkdirAll(s.cacheDir, 0o755)
			os.WriteFile(filepath.Join(s.cacheDir, key+".json"), data, 0o644)
		}
	}
	return res
}

func firstLines(s string, n int) string {
	ls := strings.Split(strings.TrimSpace(s), "\n")
	if len(ls) > n {
		ls = ls[:n]
	}
	return strings.Join(ls, " | ")
}

// SolveAll discharges obligations in parallel. Phase 1 puts every instance to the primary
// back end. Phase 2 takes the instances it could not decide, group by group (one group per
// obligation name), to the other back ends, and stops working on a group as soon as one of its
// instances is refuted or undecided everywhere (the obligation has failed then).
func (s *Solver) SolveAll(sp *Specs, obls []*Obligation, workers int) {
	par := func(items []func()) {
		ch := make(chan func())
		var wg sync.WaitGroup
		for i := 0; i < workers; i++ {
			wg.Add(1)
			go func() {
				defer wg.Done()
				for f := range ch {
					f()
				}
			}()
		}
		for _, f := range items {
			ch <- f
		}
		close(ch)
		wg.Wait()
	}
	first := []int{0}
	if s.All {
		first = []int{0, 1, 2}
	}
	var jobs []func()
	// Phase 0: the frame obligations of one return share their path condition; their conjunction is
	// put to the back ends as one query. If it is discharged every member is (PC and not (g1 and ... gn)
	// unsatisfiable implies PC and not gi unsatisfiable); otherwise the members are solved one by one
	// as usual, so a failing frame obligation is still reported under its own name.
	if !s.All {
		type bkey struct {
			d  *Decls
			id int
		}
		batches := map[bkey][]*Obligation{}
		var order []bkey
		for _, o := range obls {
			if o.Batch != 0 && o.Result == nil {
				k := bkey{o.Decls, o.Batch}
				if _, ok := batches[k]; !ok {
					order = append(order, k)
				}
				batches[k] = append(batches[k], o)
			}
		}
		for _, k := range order {
			g := batches[k]
			if len(g) < 3 {
				continue
			}
			jobs = append(jobs, func() {
				var goals []Term
				for _, o := range g {
					goals = append(goals, o.Goal)
				}
				all := *g[0]
				all.Goal = And(goals...)
				all.Kind = "frame-batch"
				r := s.solveWith(sp, &all, []int{0, 1}, nil)
				if r.Status != "unsat" {
					return
				}
				for _, o := range g {
					c := *r
					c.Secs = r.Secs / float64(len(g))
					c.Backend = r.Backend + " (one query for all frame obligations of a return)"
					o.Result = &c
				}
			})
		}
		par(jobs)
		jobs = nil
	}
	for _, o := range obls {
		if o.Result == nil {
			o := o
			jobs = append(jobs, func() {
				if o.Kind == "invariant-preserved" && !s.All {
					if r := s.solveSplit(sp, o, []int{0}); r != nil {
						o.Result = r
						return
					}
				}
				o.Result = s.solveWith(sp, o, first, nil)
			})
		}
	}
	par(jobs)
	if s.All {
		return
	}
	groups := map[string][]*Obligation{}
	var names []string
	for _, o := range obls {
		if o.Kind != "canary" && o.Result != nil && o.Result.Status == "unknown" {
			if _, ok := groups[o.Name]; !ok {
				names = append(names, o.Name)
			}
			groups[o.Name] = append(groups[o.Name], o)
		}
	}
	jobs = nil
	for _, n := range names {
		g := groups[n]
		jobs = append(jobs, func() {
			for _, o := range g {
				rest := []int{1, 2}
				if len(o.Result.Tried) > 0 && strings.HasPrefix(o.Result.Tried[0], "cvc5") {
					rest = []int{0, 1}
				}
				o.Result = s.solveWith(sp, o, rest, o.Result)
				if o.Result.Status != "unsat" {
					return // the obligation has failed; the remaining instances stay undecided
				}
			}
		})
	}
	par(jobs)
	// Phase 3: an obligation that no back end decided within the time limit gets one more, much
	// longer, attempt with little running in parallel. On a loaded machine a query that normally
	// takes a second can run into the limit; that must not be reported as a failed obligation.
	// (A genuinely failing obligation only costs more time before it is reported.)
	if s.noRetry {
		return
	}
	retry := map[string][]*Obligation{}
	var rnames []string
	for _, o := range obls {
		if o.Kind == "canary" {
			continue
		}
		if o.Result == nil || o.Result.Status == "unknown" {
			if _, ok := retry[o.Name]; !ok {
				rnames = append(rnames, o.Name)
			}
			retry[o.Name] = append(retry[o.Name], o)
		}
	}
	if len(rnames) == 0 || len(rnames) > 60 {
		return
	}
	saved := s.Timeout
	s.Timeout = saved * 3
	jobs = nil
	for _, n := range rnames {
		g := retry[n]
		jobs = append(jobs, func() {
			for _, o := range g {
				r := &SolveResult{}
				if o.Result != nil {
					r.Tried, r.Secs, r.Size = o.Result.Tried, o.Result.Secs, o.Result.Size
				}
				o.Result = s.solveWith(sp, o, []int{0, 2}, r)
				if o.Result.Status != "unsat" {
					return
				}
			}
		})
	}
	w := workers
	workers = 4
	par(jobs)
	workers = w
	s.Timeout = saved
}

// rangeSplit: a goal of the form  forall j. (... and j < T+1 and ...) => B  is equivalent to the conjunction of
//
//	forall j. (... and j < T and ...) => B      (the part the induction hypothesis covers)   and
//	(...)[j:=T] => B[j:=T]                       (the new element).
//
// The back ends decide the two halves of a preserved range invariant in a fraction of a second where the
// combined goal can run into the time limit (the case split has to be found under a large path condition).
// Discharging both halves discharges the goal; anything else falls back to the unsplit goal.
func rangeSplit(goal Term) (Term, Term, bool) {
	if goal.Sort != SBool || !strings.HasPrefix(goal.S, "(forall ((") {
		return goal, goal, false
	}
	e, _ := parseSExp(goal.S, 0)
	if e == nil || len(e.List) != 3 || e.List[0].Atom != "forall" || len(e.List[1].List) != 1 {
		return goal, goal, false
	}
	bind := e.List[1].List[0]
	if len(bind.List) != 2 || bind.List[1].Atom != "Int" {
		return goal, goal, false
	}
	v := bind.List[0].Atom
	imp := e.List[2]
	if len(imp.List) != 3 || imp.List[0].Atom != "=>" {
		return goal, goal, false
	}
	var conj []*SExp
	var flat func(x *SExp)
	flat = func(x *SExp) {
		if len(x.List) > 0 && x.List[0].Atom == "and" {
			for _, c := range x.List[1:] {
				flat(c)
			}
			return
		}
		conj = append(conj, x)
	}
	flat(imp.List[1])
	at := -1
	var upper *SExp
	for i, c := range conj {
		// (< v (+ T 1))
		if len(c.List) == 3 && c.List[0].Atom == "<" && c.List[1].Atom == v {
			u := c.List[2]
			if len(u.List) == 3 && u.List[0].Atom == "+" && u.List[2].Atom == "1" && !mentions(u.List[1], v) {
				at, upper = i, u.List[1]
				break
			}
		}
	}
	if at < 0 {
		return goal, goal, false
	}
	mk := func(cs []*SExp) string {
		if len(cs) == 0 {
			return "true"
		}
		if len(cs) == 1 {
			return cs[0].String()
		}
		var b strings.Builder
		b.WriteString("(and")
		for _, c := range cs {
			b.WriteByte(' ')
			b.WriteString(c.String())
		}
		b.WriteByte(')')
		return b.String()
	}
	// first half: j < T
	ca := append([]*SExp(nil), conj...)
	ca[at] = &SExp{List: []*SExp{{Atom: "<"}, {Atom: v}, upper}}
	a := fmt.Sprintf("(forall ((%s Int)) (=> %s %s))", v, mk(ca), imp.List[2].String())
	// second half: j := T
	var cb []*SExp
	for i, c := range conj {
		if i != at {
			cb = append(cb, substAtom(c, v, upper))
		}
	}
	b := fmt.Sprintf("(=> %s %s)", mk(cb), substAtom(imp.List[2], v, upper).String())
	return Term{a, SBool}, Term{b, SBool}, true
}

func mentions(e *SExp, v string) bool {
	if e.List == nil {
		return e.Atom == v
	}
	for _, c := range e.List {
		if mentions(c, v) {
			return true
		}
	}
	return false
}

func substAtom(e *SExp, v string, by *SExp) *SExp {
	if e.List == nil {
		if e.Atom == v {
			return by
		}
		return e
	}
	n := &SExp{List: make([]*SExp, len(e.List))}
	for i, c := range e.List {
		n.List[i] = substAtom(c, v, by)
	}
	return n
}

// solveSplit tries the two halves of a range-quantified goal; it reports success only if both are discharged.
func (s *Solver) solveSplit(sp *Specs, o *Obligation, which []int) *SolveResult {
	a, b, ok := rangeSplit(o.Goal)
	if !ok {
		return nil
	}
	oa, ob := *o, *o
	oa.Goal, ob.Goal = a, b
	oa.Kind, ob.Kind = o.Kind+"/old-range", o.Kind+"/new-element"
	ra := s.solveWith(sp, &oa, which, nil)
	if ra.Status != "unsat" {
		return nil
	}
	rb := s.solveWith(sp, &ob, which, nil)
	if rb.Status != "unsat" {
		return nil
	}
	return &SolveResult{Status: "unsat", Backend: ra.Backend + " (range split)", Secs: ra.Secs + rb.Secs, Size: ra.Size + rb.Size, Tried: append(ra.Tried, rb.Tried...)}
}
