package main

import (
	"fmt"
	"go/types"
	"sort"
	"strings"

	"golang.org/x/tools/go/ssa"
)

// ---- symbolic values -------------------------------------------------------

// Val is one of: Term (scalar: Int/Bool/Bytes/F64; pointers, maps, chans and
// funcs are Int references), SliceV, IfaceV, *StructV, TupleV, AddrV, *ClosureV.
type Val interface{}

type SliceV struct{ Arr, Off, Len, Cap Term }
type IfaceV struct{ Tag, Ref Term }
type StructV struct {
	T *types.Struct
	F []Val
}
type TupleV []Val

// AddrV is a statically known address of a non-struct location (pointer to a
// local cell, a field or an element). Pointers to structs are plain Int terms.
type AddrV struct{ L Loc }

type ClosureV struct {
	Fn   *ssa.Function
	Bind []Val
}

// StructRefV is used by the contract evaluator only: the struct stored at Ref.
type StructRefV struct{ Ref Term }

type LocKind int

const (
	LCell     LocKind = iota // local variable cell (frame, alloc)
	LGlobal                  // package-level variable
	LHeap1                   // heap[ref]            (struct field, box, ghost)
	LHeap2                   // heap[arr][idx]       (slice / array element)
	LStruct                  // a struct living at Ref (fields are LHeap1 locations keyed by Ref)
	LCellPath                // a field (path) inside a non-escaping struct local kept as a value cell
	LBase                    // heap[r] for every interior reference r whose base object is Ref (all elements of a slice of structs)
)

type Loc struct {
	Kind   LocKind
	Frame  int
	Alloc  *ssa.Alloc
	Global *ssa.Global
	Heap   string
	Ref    Term
	Idx    Term
	Typ    types.Type // type of the value stored there
	Path   []int      // LCellPath: field indices from the local's struct value
}

// ---- Go type classification -------------------------------------------------

type Kind int

const (
	KInt Kind = iota
	KBool
	KString
	KFloat
	KRef // pointer, map, chan, func, unsafe.Pointer
	KSlice
	KIface
	KStruct
	KArray
	KTuple
	KOther
)

func kindOf(t types.Type) Kind {
	switch u := t.Underlying().(type) {
	case *types.Basic:
		switch {
		case u.Info()&types.IsBoolean != 0:
			return KBool
		case u.Info()&types.IsInteger != 0:
			return KInt
		case u.Info()&types.IsString != 0:
			return KString
		case u.Info()&types.IsFloat != 0:
			return KFloat
		case u.Kind() == types.UnsafePointer:
			return KRef
		case u.Kind() == types.UntypedNil:
			return KRef
		}
		return KOther
	case *types.Pointer, *types.Map, *types.Chan, *types.Signature:
		return KRef
	case *types.Slice:
		return KSlice
	case *types.Interface:
		return KIface
	case *types.Struct:
		return KStruct
	case *types.Array:
		return KArray
	case *types.Tuple:
		return KTuple
	}
	return KOther
}

type comp struct {
	Suffix string
	Sort   string
}

// leafComps lists the SMT components of a non-struct, non-array value.
func leafComps(t types.Type) []comp {
	switch kindOf(t) {
	case KInt, KRef, KOther:
		return []comp{{"", SInt}}
	case KBool:
		return []comp{{"", SBool}}
	case KString:
		return []comp{{"", SBytes}}
	case KFloat:
		return []comp{{"", SF64}}
	case KSlice:
		return []comp{{"#arr", SInt}, {"#off", SInt}, {"#len", SInt}, {"#cap", SInt}}
	case KIface:
		return []comp{{"#tag", SInt}, {"#ref", SInt}}
	}
	panic(fmt.Sprintf("leafComps: %v", t))
}

func flatten(v Val) []Term {
	switch x := v.(type) {
	case Term:
		return []Term{x}
	case SliceV:
		return []Term{x.Arr, x.Off, x.Len, x.Cap}
	case IfaceV:
		return []Term{x.Tag, x.Ref}
	}
	panic(fmt.Sprintf("flatten: %T", v))
}

func unflatten(t types.Type, ts []Term) Val {
	switch kindOf(t) {
	case KSlice:
		return SliceV{ts[0], ts[1], ts[2], ts[3]}
	case KIface:
		return IfaceV{ts[0], ts[1]}
	}
	return ts[0]
}

// typeKey gives a stable, readable name for a type (used in heap names).
func typeKey(t types.Type) string {
	switch x := t.(type) {
	case *types.Named:
		o := x.Obj()
		if o.Pkg() != nil {
			return o.Pkg().Name() + "." + o.Name()
		}
		return o.Name()
	case *types.Alias:
		return typeKey(types.Unalias(x))
	case *types.Pointer:
		return "*" + typeKey(x.Elem())
	case *types.Slice:
		return "[]" + typeKey(x.Elem())
	case *types.Array:
		return fmt.Sprintf("[%d]%s", x.Len(), typeKey(x.Elem()))
	case *types.Map:
		return "map[" + typeKey(x.Key()) + "]" + typeKey(x.Elem())
	case *types.Chan:
		return "chan " + typeKey(x.Elem())
	case *types.Basic:
		switch x.Kind() {
		case types.Uint8:
			return "uint8"
		case types.Int32:
			return "int32"
		}
		return x.Name()
	case *types.Interface:
		if x.NumMethods() == 0 {
			return "any"
		}
	}
	s := types.TypeString(t, func(p *types.Package) string { return p.Name() })
	s = strings.ReplaceAll(s, " ", "_")
	s = strings.ReplaceAll(s, "\n", "")
	if len(s) > 60 {
		s = fmt.Sprintf("%s~%x", s[:40], hashStr(s))
	}
	return s
}

func hashStr(s string) uint32 {
	var h uint32 = 2166136261
	for i := 0; i < len(s); i++ {
		h ^= uint32(s[i])
		h *= 16777619
	}
	return h
}

func deref(t types.Type) types.Type {
	if p, ok := t.Underlying().(*types.Pointer); ok {
		return p.Elem()
	}
	return t
}

func structOf(t types.Type) *types.Struct {
	s, _ := t.Underlying().(*types.Struct)
	return s
}

// intRange returns the value range of an integer type (nil bounds = unbounded).
func intRange(t types.Type) (lo, hi Term, ok bool) {
	b, isB := t.Underlying().(*types.Basic)
	if !isB || b.Info()&types.IsInteger == 0 {
		return
	}
	bits := uint(64)
	switch b.Kind() {
	case types.Int8, types.Uint8:
		bits = 8
	case types.Int16, types.Uint16:
		bits = 16
	case types.Int32, types.Uint32:
		bits = 32
	}
	if b.Info()&types.IsUnsigned != 0 {
		return IntT(0), BigT(pow2(bits)), true // hi exclusive
	}
	h := pow2(bits - 1)
	return BigT(h.Neg(h)), BigT(pow2(bits - 1)), true
}

func isUnsigned(t types.Type) bool {
	b, ok := t.Underlying().(*types.Basic)
	return ok && b.Info()&types.IsUnsigned != 0
}

func intBits(t types.Type) uint {
	b, ok := t.Underlying().(*types.Basic)
	if !ok {
		return 64
	}
	switch b.Kind() {
	case types.Int8, types.Uint8:
		return 8
	case types.Int16, types.Uint16:
		return 16
	case types.Int32, types.Uint32:
		return 32
	}
	return 64
}

// ---- declarations ------------------------------------------------------------

// Decls collects the SMT declarations made while a function is verified.
type Decls struct {
	lines []declLine
	seen  map[string]bool
	n     int
	sorts map[string]string // symbol -> result sort
}

type declLine struct {
	sym  string
	text string
}

func NewDecls() *Decls { return &Decls{seen: map[string]bool{}, sorts: map[string]string{}} }

func (d *Decls) Const(name, sort string) Term {
	sym := smtSym(name)
	if !d.seen[sym] {
		d.seen[sym] = true
		d.sorts[sym] = sort
		d.lines = append(d.lines, declLine{sym, fmt.Sprintf("(declare-const %s %s)", sym, sort)})
	}
	return Term{sym, sort}
}

func (d *Decls) Fun(name string, args []string, ret string) string {
	sym := smtSym(name)
	if !d.seen[sym] {
		d.seen[sym] = true
		d.sorts[sym] = ret
		d.lines = append(d.lines, declLine{sym, fmt.Sprintf("(declare-fun %s (%s) %s)", sym, strings.Join(args, " "), ret)})
	}
	return sym
}

func (d *Decls) Fresh(base, sort string) Term {
	d.n++
	return d.Const(fmt.Sprintf("%s!%d", base, d.n), sort)
}

// ---- state ---------------------------------------------------------------------

type Frame struct {
	ID    int
	Fn    *ssa.Function
	Regs  map[ssa.Value]Val
	Cells map[*ssa.Alloc]Val
	Free  []Val // bindings of free variables (closures)
	Defer []deferred
}

type deferred struct {
	call  *ssa.CallCommon
	args  []Val
	fnVal Val
	instr ssa.Instruction
}

type State struct {
	Frames      map[int]*Frame
	Heaps       map[string]Term
	Globals     map[*ssa.Global]Val
	PC          []Term // path condition (assumptions)
	Top         Term   // allocation watermark: every reference known so far has root <= Top
	Tags        map[string]types.Type
	Trace       []string
	Base        string // name prefix of heap components not touched so far
	PendingBase map[string]string
	Aux         map[string]Term // values remembered by contracts (entry(e) of a loop): named, immutable, renamed at joins like locals
}

func (s *State) Clone() *State {
	n := &State{
		Frames:      make(map[int]*Frame, len(s.Frames)),
		Heaps:       make(map[string]Term, len(s.Heaps)),
		Globals:     make(map[*ssa.Global]Val, len(s.Globals)),
		PC:          append([]Term(nil), s.PC...),
		Top:         s.Top,
		Tags:        make(map[string]types.Type, len(s.Tags)),
		Trace:       append([]string(nil), s.Trace...),
		Base:        s.Base,
		PendingBase: make(map[string]string, len(s.PendingBase)),
	}
	for k, v := range s.PendingBase {
		n.PendingBase[k] = v
	}
	if s.Aux != nil {
		n.Aux = make(map[string]Term, len(s.Aux))
		for k, v := range s.Aux {
			n.Aux[k] = v
		}
	}
	for k, f := range s.Frames {
		nf := &Frame{ID: f.ID, Fn: f.Fn, Regs: make(map[ssa.Value]Val, len(f.Regs)), Cells: make(map[*ssa.Alloc]Val, len(f.Cells)), Free: f.Free}
		for a, b := range f.Regs {
			nf.Regs[a] = b
		}
		for a, b := range f.Cells {
			nf.Cells[a] = b
		}
		nf.Defer = append([]deferred(nil), f.Defer...)
		n.Frames[k] = nf
	}
	for k, v := range s.Heaps {
		n.Heaps[k] = v
	}
	for k, v := range s.Globals {
		n.Globals[k] = v
	}
	for k, v := range s.Tags {
		n.Tags[k] = v
	}
	return n
}

func (s *State) Assume(t Term) {
	if t.IsTrue() {
		return
	}
	s.PC = append(s.PC, t)
}

func sortedKeys(m map[string]Term) []string {
	ks := make([]string, 0, len(m))
	for k := range m {
		ks = append(ks, k)
	}
	sort.Strings(ks)
	return ks
}
