package main

import (
	"fmt"
	"go/types"
	"os"
	"sort"
	"strings"
	"sync"

	"golang.org/x/tools/go/packages"
	"golang.org/x/tools/go/ssa"
	"golang.org/x/tools/go/ssa/ssautil"
)

const repoModule = "github.com/grafana/carbon-relay-ng"

type Ctx struct {
	prog      *ssa.Program
	pkgs      []*ssa.Package
	byName    map[string]*ssa.Package
	specs     *Specs
	mu        sync.Mutex
	loops     map[*ssa.Function]map[*ssa.BasicBlock]*Loop
	typeIDs   map[string]int
	typeOf    map[int]types.Type
	impls     map[string][]types.Type
	allTypes  []types.Type
	repoDir   string
	skips     map[*ssa.Function]map[ssa.Instruction]bool
	localsRef map[string][]localRef // named locals of the functions under contract when the contracts were written
}

type Loop struct {
	Header  *ssa.BasicBlock
	Blocks  map[*ssa.BasicBlock]bool
	Ordinal int
}

// Load builds SSA (naive form: named locals stay memory cells) for the given repo packages.
func Load(repoDir string, patterns []string) (*Ctx, error) {
	cfg := &packages.Config{
		Mode: packages.LoadSyntax | packages.NeedModule,
		Dir:  repoDir,
		Env:  append(os.Environ(), "GOFLAGS=-mod=mod", "GOPROXY=off", "GOSUMDB=off", "GOTOOLCHAIN=local"),
	}
	initial, err := packages.Load(cfg, patterns...)
	if err != nil {
		return nil, err
	}
	var errs []string
	packages.Visit(initial, nil, func(p *packages.Package) {
		for _, e := range p.Errors {
			errs = append(errs, e.Error())
		}
	})
	if len(errs) > 0 {
		return nil, fmt.Errorf("package errors:\n%s", strings.Join(errs, "\n"))
	}
	prog, pkgs := ssautil.Packages(initial, ssa.NaiveForm|ssa.InstantiateGenerics)
	c := &Ctx{prog: prog, byName: map[string]*ssa.Package{}, loops: map[*ssa.Function]map[*ssa.BasicBlock]*Loop{},
		typeIDs: map[string]int{}, typeOf: map[int]types.Type{}, impls: map[string][]types.Type{}, repoDir: repoDir, skips: map[*ssa.Function]map[ssa.Instruction]bool{}}
	for _, p := range pkgs {
		if p == nil {
			continue
		}
		p.Build()
		c.pkgs = append(c.pkgs, p)
		c.byName[p.Pkg.Name()] = p
	}
	// all named types of the loaded repo packages (closed world for interface dispatch)
	for _, p := range c.pkgs {
		var names []string
		for n := range p.Members {
			names = append(names, n)
		}
		sort.Strings(names)
		for _, n := range names {
			if t, ok := p.Members[n].(*ssa.Type); ok {
				c.allTypes = append(c.allTypes, t.Type())
			}
		}
	}
	return c, nil
}

func (c *Ctx) typeID(t types.Type) int {
	c.mu.Lock()
	defer c.mu.Unlock()
	k := types.TypeString(t, nil)
	if id, ok := c.typeIDs[k]; ok {
		return id
	}
	// even ids: pointer-shaped dynamic values (the interface's reference is the value);
	// odd ids: values kept in a box (see binop on interfaces)
	id := 2 * (len(c.typeIDs) + 1)
	if kindOf(t) != KRef {
		id++
	}
	c.typeIDs[k] = id
	c.typeOf[id] = t
	return id
}

// implementers lists the concrete repo types (T and *T) that implement iface.
func (c *Ctx) implementers(it *types.Interface) []types.Type {
	k := it.String()
	c.mu.Lock()
	if r, ok := c.impls[k]; ok {
		c.mu.Unlock()
		return r
	}
	c.mu.Unlock()
	var out []types.Type
	for _, t := range c.allTypes {
		if _, isI := t.Underlying().(*types.Interface); isI {
			continue
		}
		if types.Implements(t, it) {
			out = append(out, t)
		} else if pt := types.NewPointer(t); types.Implements(pt, it) {
			out = append(out, pt)
		}
	}
	c.mu.Lock()
	c.impls[k] = out
	c.mu.Unlock()
	return out
}

// loopsOf computes the natural loops of fn, numbered in order of their header's source position.
func (c *Ctx) loopsOf(fn *ssa.Function) map[*ssa.BasicBlock]*Loop {
	c.mu.Lock()
	defer c.mu.Unlock()
	if l, ok := c.loops[fn]; ok {
		return l
	}
	res := map[*ssa.BasicBlock]*Loop{}
	for _, b := range fn.Blocks {
		for _, s := range b.Succs {
			if s.Dominates(b) { // back edge b -> s
				lp := res[s]
				if lp == nil {
					lp = &Loop{Header: s, Blocks: map[*ssa.BasicBlock]bool{s: true}}
					res[s] = lp
				}
				// nodes that reach b without passing through s
				stack := []*ssa.BasicBlock{b}
				for len(stack) > 0 {
					n := stack[len(stack)-1]
					stack = stack[:len(stack)-1]
					if lp.Blocks[n] {
						continue
					}
					lp.Blocks[n] = true
					stack = append(stack, n.Preds...)
				}
			}
		}
	}
	var hs []*ssa.BasicBlock
	for h := range res {
		hs = append(hs, h)
	}
	minPos := func(lp *Loop) int {
		best := int(^uint(0) >> 1)
		for b := range lp.Blocks {
			for _, in := range b.Instrs {
				if p := in.Pos(); p.IsValid() && int(p) < best {
					best = int(p)
				}
			}
		}
		return best
	}
	sort.Slice(hs, func(i, j int) bool {
		pi, pj := minPos(res[hs[i]]), minPos(res[hs[j]])
		if pi != pj {
			return pi < pj
		}
		return hs[i].Index < hs[j].Index
	})
	for i, h := range hs {
		res[h].Ordinal = i + 1
	}
	c.loops[fn] = res
	return res
}

// headerPos: the smallest source position of any instruction in the loop (its "for" keyword region).
func headerPos(h *ssa.BasicBlock) int {
	best := int(^uint(0) >> 1)
	// look at the header and its in-loop successors for a valid position
	seen := map[*ssa.BasicBlock]bool{}
	var walk func(b *ssa.BasicBlock, d int)
	walk = func(b *ssa.BasicBlock, d int) {
		if seen[b] || d > 3 {
			return
		}
		seen[b] = true
		for _, in := range b.Instrs {
			if p := in.Pos(); p.IsValid() && int(p) < best {
				best = int(p)
			}
		}
		for _, s := range b.Succs {
			walk(s, d+1)
		}
	}
	walk(h, 0)
	return best
}

// funcKey gives the contract key of an SSA function: pkgname.Recv.Name or pkgname.Name.
func funcKey(fn *ssa.Function) string {
	pkg := ""
	if fn.Pkg != nil {
		pkg = fn.Pkg.Pkg.Name()
	} else if o := fn.Object(); o != nil && o.Pkg() != nil {
		pkg = o.Pkg().Name()
	}
	name := fn.Name()
	if fn.Parent() != nil {
		return funcKey(fn.Parent()) + "$" + strings.TrimPrefix(name, fn.Parent().Name()+"$")
	}
	if fn.Signature.Recv() != nil {
		rt := fn.Signature.Recv().Type()
		if p, ok := rt.(*types.Pointer); ok {
			rt = p.Elem()
		}
		if n, ok := rt.(*types.Named); ok {
			if n.Obj().Pkg() != nil {
				pkg = n.Obj().Pkg().Name()
			}
			return pkg + "." + n.Obj().Name() + "." + name
		}
	}
	return pkg + "." + name
}

// methodKey gives the contract key of an interface method.
func methodKey(m *types.Func) string {
	sig := m.Type().(*types.Signature)
	pkg := ""
	if m.Pkg() != nil {
		pkg = m.Pkg().Name()
	}
	if r := sig.Recv(); r != nil {
		if n, ok := r.Type().(*types.Named); ok {
			if n.Obj().Pkg() != nil {
				pkg = n.Obj().Pkg().Name()
			} else {
				pkg = ""
			}
			if pkg == "" {
				return n.Obj().Name() + "." + m.Name() // error.Error
			}
			return pkg + "." + n.Obj().Name() + "." + m.Name()
		}
	}
	return pkg + "." + m.Name()
}

func (c *Ctx) findFunc(key string) *ssa.Function {
	if i := strings.Index(key, "$"); i >= 0 {
		// a function literal: parent key + $ + ordinal path (relay$1, run$2$1)
		parent := c.findFunc(key[:i])
		if parent == nil {
			return nil
		}
		want := parent.Name() + key[i:]
		var find func(f *ssa.Function) *ssa.Function
		find = func(f *ssa.Function) *ssa.Function {
			for _, a := range f.AnonFuncs {
				if a.Name() == want {
					return a
				}
				if r := find(a); r != nil {
					return r
				}
			}
			return nil
		}
		return find(parent)
	}
	parts := strings.Split(key, ".")
	p := c.byName[parts[0]]
	if p == nil {
		return nil
	}
	switch len(parts) {
	case 2:
		return p.Func(parts[1])
	case 3:
		t := p.Type(parts[1])
		if t == nil {
			return nil
		}
		for _, typ := range []types.Type{t.Type(), types.NewPointer(t.Type())} {
			ms := c.prog.MethodSets.MethodSet(typ)
			for i := 0; i < ms.Len(); i++ {
				if ms.At(i).Obj().Name() == parts[2] {
					fn := c.prog.MethodValue(ms.At(i))
					if fn != nil && fn.Synthetic == "" {
						return fn
					}
				}
			}
		}
	}
	return nil
}

func isRepoFunc(fn *ssa.Function) bool {
	var p *types.Package
	if fn.Pkg != nil {
		p = fn.Pkg.Pkg
	} else if o := fn.Object(); o != nil {
		p = o.Pkg()
	} else if fn.Parent() != nil {
		return isRepoFunc(fn.Parent())
	}
	return p != nil && strings.HasPrefix(p.Path(), repoModule)
}

// localRef: one named local (SSA alloc with a comment) of a function, in order of appearance.
type localRef struct {
	Name string `json:"name"`
	Type string `json:"type"`
}

// namedLocals lists the named allocs of fn in block/instruction order.
func namedLocals(fn *ssa.Function) ([]*ssa.Alloc, []localRef) {
	var as []*ssa.Alloc
	var ls []localRef
	for _, b := range fn.Blocks {
		for _, in := range b.Instrs {
			if a, ok := in.(*ssa.Alloc); ok && a.Comment != "" {
				as = append(as, a)
				ls = append(ls, localRef{a.Comment, types.TypeString(a.Type(), nil)})
			}
		}
	}
	return as, ls
}

// renamedLocal: name is not a local of fn today, but it was when the contracts were written.
// The locals that disappeared (by name) are matched with the locals that are new (by name) type
// by type, in order of appearance; the match is only used when, for the type of the missing local,
// as many locals disappeared as appeared (a pure rename, possibly next to unrelated new locals of
// other types).
func (c *Ctx) renamedLocal(fn *ssa.Function, name string) *ssa.Alloc {
	ref := c.localsRef[funcKey(fn)]
	if ref == nil {
		return nil
	}
	as, cur := namedLocals(fn)
	curNames := map[string]bool{}
	for _, l := range cur {
		curNames[l.Name] = true
	}
	refNames := map[string]bool{}
	typ := ""
	for _, l := range ref {
		refNames[l.Name] = true
		if l.Name == name {
			if typ != "" && typ != l.Type {
				return nil // the name denoted locals of different types
			}
			typ = l.Type
		}
	}
	if typ == "" {
		return nil
	}
	var missing []string // names of type typ that disappeared, in order (each once)
	seen := map[string]bool{}
	for _, l := range ref {
		if l.Type == typ && !curNames[l.Name] && !seen[l.Name] {
			seen[l.Name] = true
			missing = append(missing, l.Name)
		}
	}
	var fresh []*ssa.Alloc // locals of type typ whose names are new, in order (each name once)
	seen = map[string]bool{}
	for i, l := range cur {
		if l.Type == typ && !refNames[l.Name] && !seen[l.Name] {
			seen[l.Name] = true
			fresh = append(fresh, as[i])
		}
	}
	if len(missing) != len(fresh) {
		return nil
	}
	for i, m := range missing {
		if m == name {
			return fresh[i]
		}
	}
	return nil
}

// vtask: one verification task -- a function body checked against a contract. For a contract attached to a
// function-typed struct field (pkg.Type.field) there is one task per function that the repository stores in
// that field: the body of the stored function is verified against the field's contract (receiver dropped), so
// the contract used at calls through the field is no longer an assumption for those functions.
type vtask struct {
	key    string
	fn     *ssa.Function
	fc     *FuncContract
	nameAs string
	skip   string
	notes  []string
}

// fieldOfKey resolves "pkg.Type.field" to a struct field of function type.
func (c *Ctx) fieldOfKey(key string) (*types.Named, int) {
	parts := strings.Split(key, ".")
	if len(parts) != 3 {
		return nil, -1
	}
	p := c.byName[parts[0]]
	if p == nil {
		return nil, -1
	}
	t := p.Type(parts[1])
	if t == nil {
		return nil, -1
	}
	n, ok := t.Type().(*types.Named)
	if !ok {
		return nil, -1
	}
	st, ok := n.Underlying().(*types.Struct)
	if !ok {
		return nil, -1
	}
	for i := 0; i < st.NumFields(); i++ {
		if st.Field(i).Name() == parts[2] {
			if _, isSig := st.Field(i).Type().Underlying().(*types.Signature); isSig {
				return n, i
			}
		}
	}
	return nil, -1
}

func (c *Ctx) expandKey(key string, fc *FuncContract) []vtask {
	if fn := c.findFunc(key); fn != nil {
		return []vtask{{key: key, fn: fn, fc: fc}}
	}
	n, fi := c.fieldOfKey(key)
	if n == nil || fc == nil {
		return []vtask{{key: key, skip: "contract-binding: function " + key + " not found in the source"}}
	}
	seen := map[*ssa.Function]bool{}
	var stored []*ssa.Function
	unknown := 0
	var fns []*ssa.Function
	for fn := range ssautil.AllFunctions(c.prog) {
		if isRepoFunc(fn) && fn.Blocks != nil {
			fns = append(fns, fn)
		}
	}
	sort.Slice(fns, func(i, j int) bool { return fns[i].String() < fns[j].String() })
	for _, fn := range fns {
		for _, b := range fn.Blocks {
			for _, in := range b.Instrs {
				st, ok := in.(*ssa.Store)
				if !ok {
					continue
				}
				fa, ok := st.Addr.(*ssa.FieldAddr)
				if !ok || fa.Field != fi || namedOf(fa.X.Type()) == nil || namedOf(fa.X.Type()).Obj() != n.Obj() {
					continue
				}
				v := st.Val
				for {
					if ct, ok := v.(*ssa.ChangeType); ok {
						v = ct.X
						continue
					}
					break
				}
				switch x := v.(type) {
				case *ssa.Function:
					if !seen[x] {
						seen[x] = true
						stored = append(stored, x)
					}
				case *ssa.MakeClosure:
					if f, ok := x.Fn.(*ssa.Function); ok && len(x.Bindings) == 0 && !seen[f] {
						seen[f] = true
						stored = append(stored, f)
					} else if !ok || len(x.Bindings) > 0 {
						unknown++
					}
				default:
					unknown++
				}
			}
		}
	}
	if len(stored) == 0 {
		return []vtask{{key: key, skip: "contract-binding: no function constant is stored in field " + key}}
	}
	var out []vtask
	for _, f := range stored {
		d := *fc
		if len(d.Params) > 0 && d.Recv != "" {
			d.Params = d.Params[1:]
		}
		d.Recv = ""
		d.RecvPtr = false
		t := vtask{key: key, fn: f, fc: &d, nameAs: key + "<-" + funcKey(f)}
		if f.Blocks == nil || !isRepoFunc(f) {
			t.skip = "contract-binding: " + funcKey(f) + " stored in field " + key + " has no body in the repository"
		}
		if unknown > 0 {
			t.notes = append(t.notes, fmt.Sprintf("%d store(s) into %s of a value that is not a function constant: assumed to satisfy the field's contract", unknown, key))
		}
		out = append(out, t)
	}
	return out
}

// confinement checks every "confined" directive serving property P: each access to the field (FieldAddr / Field)
// anywhere in the repository must sit in one of the owner functions or in a function literal nested in one.
func (c *Ctx) confinement(P string) *Exec {
	ex := &Exec{ctx: c, D: NewDecls(), externs: map[string]bool{}, assumed: map[string]bool{}, inlined: map[string]bool{}, nameAs: "confined", retCount: 1}
	var fns []*ssa.Function
	for fn := range ssautil.AllFunctions(c.prog) {
		if isRepoFunc(fn) && fn.Blocks != nil && fn.Synthetic == "" {
			fns = append(fns, fn)
		}
	}
	sort.Slice(fns, func(i, j int) bool { return fns[i].String() < fns[j].String() })
	n := 0
	for _, cd := range c.specs.Confined {
		if !hasProp(cd.Props, P) {
			continue
		}
		n++
		parts := strings.Split(cd.Field, ".")
		if len(parts) != 3 {
			ex.errs = append(ex.errs, "contract-binding: confined "+cd.Field+": want Type.field")
			continue
		}
		var named *types.Named
		fi := -1
		if p := c.byName[parts[0]]; p != nil {
			if t := p.Type(parts[1]); t != nil {
				if nt, ok := t.Type().(*types.Named); ok {
					if st, ok := nt.Underlying().(*types.Struct); ok {
						for i := 0; i < st.NumFields(); i++ {
							if st.Field(i).Name() == parts[2] {
								named, fi = nt, i
							}
						}
					}
				}
			}
		}
		if named == nil {
			ex.errs = append(ex.errs, "contract-binding: confined "+cd.Field+": no such field")
			continue
		}
		owner := map[string]bool{}
		for _, o := range cd.Owners {
			k := parts[0] + "." + o
			if c.findFunc(k) == nil {
				ex.errs = append(ex.errs, "contract-binding: confined "+cd.Field+": owner "+k+" not found")
			}
			owner[k] = true
		}
		accesses := 0
		for _, fn := range fns {
			root := fn
			for root.Parent() != nil {
				root = root.Parent()
			}
			for _, b := range fn.Blocks {
				for _, in := range b.Instrs {
					var xt types.Type
					f := -1
					switch x := in.(type) {
					case *ssa.FieldAddr:
						xt, f = x.X.Type(), x.Field
					case *ssa.Field:
						xt, f = x.X.Type(), x.Field
					}
					if f != fi || xt == nil || namedOf(xt) == nil || namedOf(xt).Obj() != named.Obj() {
						continue
					}
					accesses++
					if owner[funcKey(root)] {
						continue
					}
					pos := c.prog.Fset.Position(in.Pos())
					ob := &Obligation{Name: "confined:" + cd.Field + "#owner-only:" + funcKey(fn), Func: "confined:" + cd.Field, Kind: "confined", Label: funcKey(fn), Props: cd.Props, Goal: False, Decls: ex.D,
						Where: fmt.Sprintf("%s:%d", shortPath(pos.Filename), pos.Line), Src: "confined " + cd.Src,
						Result: &SolveResult{Status: "unknown", Backend: "ssa-scan", Output: cd.Field + " is accessed in " + funcKey(fn) + ", which is not one of its owner functions"}}
					ex.obls = append(ex.obls, ob)
				}
			}
		}
		if accesses == 0 {
			ex.errs = append(ex.errs, "vacuity: confined "+cd.Field+": the field is never accessed")
		}
		ex.obls = append(ex.obls, &Obligation{Name: "confined:" + cd.Field + "#owner-only", Func: "confined:" + cd.Field, Kind: "confined", Label: "owner-only", Props: cd.Props, Goal: True, Decls: ex.D, Src: "confined " + cd.Src,
			Result: &SolveResult{Status: "unsat", Backend: "ssa-scan"}})
	}
	if n == 0 {
		return nil
	}
	return ex
}
