package main

import (
	"fmt"
	"os"
	"path/filepath"
	"regexp"
	"sort"
	"strconv"
	"strings"
)

// Contract files: comment-only Go files (//go:build verif) in /repo/<pkg>/verif_contracts.go
// and assumed library contracts in /verif/specs/*.spec. Every contract line starts
// with "//@" (or "// @", which is what gofmt may turn it into).

type Clause struct {
	Kind    string // requires, ensures, invariant, assume
	Bounded bool   // decided by a bounded stand-in, not by the solver (assumed at call sites)
	Label   string
	Props   []string
	Src     string
	E       Expr
	File    string
	Line    int
}

type LoopSpec struct {
	Ordinal int
	Tag     string
	Invs    []*Clause
	Assumed []*Clause // facts about the environment of the loop (ownership of channels, ...): assumed at the loop head, never proved, listed in the evidence
}

type LetDef struct {
	Name string
	E    Expr
	Src  string
}

type Param struct{ Name, Type string }

type FuncContract struct {
	Key          string // pkgpath|Recv.Name  or pkgpath|Name
	PkgName      string
	Recv         string // receiver type name without * and package
	RecvPtr      bool
	Name         string
	Params       []Param // including receiver first (if any)
	Results      []Param
	Props        []string
	Requires     []*Clause
	ObjInvs      []*Clause // object invariants over private state: assumed at entry (also at call sites, unchecked there)
	Defines      []*Clause // definitional axioms of spec functions local to this contract (assumed at entry)
	Ensures      []*Clause
	Lets         []LetDef
	Modifies     []Expr
	ModSrc       []string
	ModAll       bool
	Loops        map[int]*LoopSpec
	Branches     map[string][]*Clause
	Extern       bool
	Iface        bool
	Pure         bool
	Logged       bool
	Trusted      bool // body not verified (assumed), listed in evidence
	NoInline     bool
	Nonblock     bool
	Fresh        bool // result is freshly allocated
	File         string
	Line         int
	Header       string
	MayPanic     bool
	CallsArg     bool // the function's whole effect is to call its last argument (a func()) once
	Merge        bool // verify with join merging even though the function is small (many returns x many clauses)
	NeverReturns bool // an event loop without exit: no return path is expected (vacuity is guarded by the back-edge canaries)
	Bounded      []BoundedDef
	RecvAssumes  map[string][]*Clause
	GhostSets    []GhostSet
	NoSafety     string   // reason why panic-freedom obligations are not generated for this function
	SpawnChecked bool     // the requires clauses are obligations of every go statement that starts this function
	DeadReturns  []string // return statements (text #ordinal) that the callees' contracts make unreachable: no reachability canary
}

type GhostSet struct {
	LHS, RHS Expr
	Src      string
}

// BoundedDef attaches a bounded stand-in (a harness test run on the real code over an
// enumerated input space) to clauses that no SMT theory here can decide.
type BoundedDef struct {
	Test  string
	Bound string
	Props []string // properties of the bounded clause it decides (empty: the function's)
}

type MacroDef struct {
	Pkg    string // package whose scope resolves the names in the body
	Name   string
	Recv   string // receiver type name ("" for plain spec functions)
	Params []Param
	Body   Expr
	Src    string
	File   string
}

type GhostField struct {
	Type string // type key, e.g. io.Writer, sync.Mutex
	Name string
	Sort string // int, bool, bytes, log, or a Go type name for slices etc.
}

type StructInv struct {
	Type string
	Var  string
	E    Expr
	Src  string
}

type Specs struct {
	Funcs    map[string]*FuncContract // by key "pkgname.Recv.Name" / "pkgname.Name"
	Macros   map[string]*MacroDef     // "Name" or "Recv.Name"
	Ghosts   map[string]*GhostField   // "Type.name"
	SMT      []string                 // raw prelude lines
	Axioms   []AxiomDef
	Erase    []string          // patterns of erased callees
	Pure     []string          // patterns of callees assumed pure with unconstrained result
	SMTFuns  map[string]string // function symbol -> result sort
	Invs     []*StructInv
	Files    []string
	PropsOf  map[string][]string
	NonNil   []string // package-level variables assumed non-nil (library sentinels)
	Guarded  map[string]GuardDef
	Confined []ConfinedDef
	ChanInvs map[string]*MacroDef
}

// GuardDef: accesses to a package-level variable are obligations "the mutex is held".
type GuardDef struct {
	Lock  string // package-level sync.Mutex variable (same package)
	Props []string
}

type AxiomDef struct {
	Name     string
	Text     string
	File     string
	Triggers []string // symbols that must all occur in a query for the axiom to be included
}

// finishAxioms computes the trigger symbols of every axiom: the declared function symbols in
// its :pattern annotations (or, without patterns, all declared symbols it mentions).
func (sp *Specs) finishAxioms() {
	for i := range sp.Axioms {
		ax := &sp.Axioms[i]
		text := ax.Text
		var scope string
		if j := strings.Index(text, ":pattern"); j >= 0 {
			scope = text[j:]
		} else {
			scope = text
		}
		seen := map[string]bool{}
		for _, t := range tokenRe.FindAllString(scope, -1) {
			if _, ok := sp.SMTFuns[t]; ok && !seen[t] {
				seen[t] = true
				ax.Triggers = append(ax.Triggers, t)
			}
		}
	}
}

func NewSpecs() *Specs {
	sp := &Specs{Funcs: map[string]*FuncContract{}, Macros: map[string]*MacroDef{}, Ghosts: map[string]*GhostField{}, SMTFuns: map[string]string{}}
	// constructors and selectors of the built-in datatypes (declared in specs/00_builtin.spec)
	for _, c := range []string{"eNil", "eI", "eS", "eF", "eB", "eL", "eP", "eP1", "eP2", "llast"} {
		sp.SMTFuns[c] = SElem
	}
	for _, c := range []string{"lnil", "lsnoc", "lrest"} {
		sp.SMTFuns[c] = SLog
	}
	sp.SMTFuns["eBc"], sp.SMTFuns["eSv"] = SBytes, SBytes
	sp.SMTFuns["eBa"], sp.SMTFuns["eIv"] = SInt, SInt
	sp.SMTFuns["eFv"] = SF64
	return sp
}

var contractLineRe = regexp.MustCompile(`^\s*// ?@ ?(.*)$`)

// LoadFile parses one contract/spec file. pkgName is the default package of the declarations in it.
func (sp *Specs) LoadFile(path, pkgName string) error {
	data, err := os.ReadFile(path)
	if err != nil {
		return err
	}
	sp.Files = append(sp.Files, path)
	type line struct {
		s string
		n int
	}
	var lines []line
	for i, raw := range strings.Split(string(data), "\n") {
		m := contractLineRe.FindStringSubmatch(raw)
		if m == nil {
			if strings.HasPrefix(strings.TrimSpace(raw), "package ") && pkgName == "" {
				pkgName = strings.TrimSpace(strings.TrimPrefix(strings.TrimSpace(raw), "package "))
			}
			continue
		}
		s := m[1]
		if j := strings.Index(s, " //"); j >= 0 && !strings.Contains(s[:j], `"`) {
			s = s[:j] // trailing comment
		}
		if strings.TrimSpace(s) == "" || strings.HasPrefix(strings.TrimSpace(s), "//") {
			continue
		}
		lines = append(lines, line{s, i + 1})
	}
	// join continuation lines
	contOps := []string{"&&", "||", "==>", "<==>", "++", "+", "::", "?", ":", ",", "(", "==", ":="}
	var joined []line
	for _, l := range lines {
		t := strings.TrimSpace(l.s)
		isCont := false
		if len(joined) > 0 {
			prev := strings.TrimSpace(joined[len(joined)-1].s)
			for _, op := range contOps {
				if strings.HasSuffix(prev, op) && !strings.HasSuffix(prev, "loop "+op) && !(op == ":" && loopHdrRe.MatchString(prev)) && !(op == ":" && strings.HasPrefix(prev, "branch ")) {
					isCont = true
				}
			}
			for _, op := range []string{"&&", "||", "==>", "<==>", "++", "? ", ": "} {
				if strings.HasPrefix(t, op) {
					isCont = true
				}
			}
			if strings.HasPrefix(prev, "smt ") || strings.HasPrefix(prev, "axiom ") {
				// raw SMT continues while parentheses are unbalanced
				if strings.Count(joined[len(joined)-1].s, "(") > strings.Count(joined[len(joined)-1].s, ")") {
					isCont = true
				} else {
					isCont = false
				}
			}
		}
		if isCont {
			joined[len(joined)-1].s += " " + t
		} else {
			joined = append(joined, l)
		}
	}
	var cur *FuncContract
	var curLoop *LoopSpec
	var curBranch string
	auto := 0
	for _, l := range joined {
		t := strings.TrimSpace(l.s)
		word := t
		rest := ""
		if i := strings.IndexAny(t, " \t["); i > 0 {
			word, rest = t[:i], strings.TrimSpace(t[i:])
		}
		fail := func(format string, a ...interface{}) error {
			return fmt.Errorf("%s:%d: %s", path, l.n, fmt.Sprintf(format, a...))
		}
		switch word {
		case "func", "extern", "iface":
			hdr := t
			fc := &FuncContract{Loops: map[int]*LoopSpec{}, Branches: map[string][]*Clause{}, File: path, Line: l.n, Header: t, PkgName: pkgName, Extern: pkgName == "spec"}
			if word == "extern" {
				fc.Extern = true
				hdr = strings.TrimSpace(strings.TrimPrefix(rest, "func"))
			} else if word == "iface" {
				fc.Iface = true
				hdr = rest
			} else {
				hdr = rest
			}
			if err := parseFuncHeader(hdr, fc); err != nil {
				return fail("%v", err)
			}
			fc.Key = fc.PkgName + "." + fc.Name
			if fc.Recv != "" {
				fc.Key = fc.PkgName + "." + fc.Recv + "." + fc.Name
				if fc.PkgName == "spec" {
					fc.Key = fc.Recv + "." + fc.Name // predeclared types (error)
				}
			}
			if _, dup := sp.Funcs[fc.Key]; dup {
				return fail("duplicate contract for %s", fc.Key)
			}
			sp.Funcs[fc.Key] = fc
			cur, curLoop, curBranch = fc, nil, ""
		case "property":
			if cur == nil {
				return fail("property outside a function contract")
			}
			cur.Props = append(cur.Props, splitList(rest)...)
		case "pure":
			cur.Pure = true
		case "logged":
			cur.Logged = true
		case "trusted":
			cur.Trusted = true
		case "noinline":
			cur.NoInline = true
		case "nonblocking":
			cur.Nonblock = true
		case "fresh":
			cur.Fresh = true
		case "may_panic":
			cur.MayPanic = true
		case "requires", "ensures", "invariant", "assume", "define", "objinv", "assumed_invariant":
			if cur == nil {
				return fail("%s outside a function contract", word)
			}
			c := &Clause{Kind: word, File: path, Line: l.n}
			body := rest
			if strings.HasPrefix(body, "[") {
				j := strings.Index(body, "]")
				if j < 0 {
					return fail("unterminated label")
				}
				lab := body[1:j]
				body = strings.TrimSpace(body[j+1:])
				parts := strings.SplitN(lab, ";", 2)
				c.Label = strings.TrimSpace(parts[0])
				if len(parts) == 2 {
					for _, pr := range splitList(strings.ReplaceAll(parts[1], ";", ",")) {
						if pr == "bounded" {
							c.Bounded = true
						} else {
							c.Props = append(c.Props, pr)
						}
					}
				}
			}
			if c.Label == "" {
				auto++
				c.Label = fmt.Sprintf("%s%d", word[:3], auto)
			}
			c.Src = body
			e, err := ParseExpr(body)
			if err != nil {
				return fail("%v", err)
			}
			c.E = e
			switch {
			case word == "assumed_invariant":
				if curLoop == nil {
					return fail("assumed_invariant outside a loop block")
				}
				curLoop.Assumed = append(curLoop.Assumed, c)
			case word == "invariant":
				if curLoop == nil {
					return fail("invariant outside a loop block")
				}
				curLoop.Invs = append(curLoop.Invs, c)
			case curBranch != "":
				cur.Branches[curBranch] = append(cur.Branches[curBranch], c)
			case word == "define":
				cur.Defines = append(cur.Defines, c)
			case word == "objinv":
				cur.ObjInvs = append(cur.ObjInvs, c)
			case word == "requires":
				cur.Requires = append(cur.Requires, c)
			default:
				cur.Ensures = append(cur.Ensures, c)
			}
		case "bounded":
			if cur == nil {
				return fail("bounded outside a function contract")
			}
			f := strings.SplitN(rest, " ", 2)
			bd := BoundedDef{Test: f[0]}
			for i := len(cur.Ensures) - 1; i >= 0; i-- {
				if cur.Ensures[i].Bounded {
					bd.Props = cur.Ensures[i].Props
					break
				}
			}
			if len(f) == 2 {
				bd.Bound = strings.Trim(strings.TrimSpace(f[1]), `"`)
			}
			cur.Bounded = append(cur.Bounded, bd)
		case "modifies":
			if cur == nil {
				return fail("modifies outside a function contract")
			}
			if strings.TrimSpace(rest) == "*" {
				cur.ModAll = true
				break
			}
			for _, part := range splitTop(rest) {
				e, err := ParseExpr(part)
				if err != nil {
					return fail("%v", err)
				}
				cur.Modifies = append(cur.Modifies, e)
				cur.ModSrc = append(cur.ModSrc, part)
			}
		case "ghostset":
			// ghostset <ghost lvalue> := <expr>: a ghost assignment performed at every return of the
			// function (contract-level ghost code; nothing is added to the repository's code)
			if cur == nil {
				return fail("ghostset outside a function contract")
			}
			parts := strings.SplitN(rest, ":=", 2)
			if len(parts) != 2 {
				return fail("ghostset needs :=")
			}
			lhs, err := ParseExpr(parts[0])
			if err != nil {
				return fail("%v", err)
			}
			rhs, err := ParseExpr(parts[1])
			if err != nil {
				return fail("%v", err)
			}
			cur.GhostSets = append(cur.GhostSets, GhostSet{lhs, rhs, rest})
		case "let":
			if cur == nil {
				return fail("let outside a function contract")
			}
			parts := strings.SplitN(rest, ":=", 2)
			if len(parts) != 2 {
				return fail("let needs :=")
			}
			e, err := ParseExpr(parts[1])
			if err != nil {
				return fail("%v", err)
			}
			cur.Lets = append(cur.Lets, LetDef{strings.TrimSpace(parts[0]), e, parts[1]})
		case "loop":
			if cur == nil {
				return fail("loop outside a function contract")
			}
			m := loopHdrRe.FindStringSubmatch(t)
			if m == nil {
				return fail("bad loop header %q", t)
			}
			n, _ := strconv.Atoi(m[1])
			curLoop = &LoopSpec{Ordinal: n, Tag: m[3]}
			cur.Loops[n] = curLoop
			curBranch = ""
		case "assume_recv":
			// assume_recv "<-c.In": expr over $recv -- an unproved fact about every value received in that
			// select case (ownership of buffers, ...); listed in the evidence
			if cur == nil {
				return fail("assume_recv outside a function contract")
			}
			m := regexp.MustCompile(`^"([^"]+)"\s*:\s*(.+)$`).FindStringSubmatch(rest)
			if m == nil {
				return fail("assume_recv \"case text\": expr")
			}
			e, err := ParseExpr(m[2])
			if err != nil {
				return fail("%v", err)
			}
			if cur.RecvAssumes == nil {
				cur.RecvAssumes = map[string][]*Clause{}
			}
			cur.RecvAssumes[m[1]] = append(cur.RecvAssumes[m[1]], &Clause{Kind: "assume_recv", Src: m[2], E: e, File: path, Line: l.n, Label: "recv"})
		case "branch":
			name := strings.TrimSuffix(strings.TrimSpace(rest), ":")
			curBranch = strings.Trim(name, `"`)
			curLoop = nil
		case "pred", "spec":
			md, err := parseMacro(rest)
			if err != nil {
				return fail("%v", err)
			}
			md.File = path
			md.Pkg = pkgName
			key := md.Name
			if md.Recv != "" {
				key = md.Recv + "." + md.Name
			}
			sp.Macros[key] = md
			cur = nil
		case "ghost":
			// ghost (Type) name sort
			m := regexp.MustCompile(`^\(([^)]+)\)\s+(\w+)\s+(.+)$`).FindStringSubmatch(rest)
			if m == nil {
				return fail("bad ghost declaration")
			}
			ty := strings.TrimSpace(m[1])
			if ty != "*" {
				ty = strings.TrimPrefix(ty, "*")
			}
			sp.Ghosts[ty+"."+m[2]] = &GhostField{Type: ty, Name: m[2], Sort: strings.TrimSpace(m[3])}
			cur = nil
		case "smt":
			sp.SMT = append(sp.SMT, rest)
			sp.noteSMTFun(rest)
			cur = nil
		case "axiom":
			parts := strings.SplitN(rest, ":", 2)
			if len(parts) != 2 {
				return fail("axiom needs a name")
			}
			sp.Axioms = append(sp.Axioms, AxiomDef{Name: strings.TrimSpace(parts[0]), Text: strings.TrimSpace(parts[1]), File: path})
			cur = nil
		case "erase":
			sp.Erase = append(sp.Erase, splitList(rest)...)
			cur = nil
		case "chan_invariant":
			// chan_invariant pkg.Type.field(v T) := pred(v): every value sent on the channel stored in
			// that field satisfies pred (obligation at sends, assumption at receives)
			md, err := parseMacro(rest)
			if err != nil {
				return fail("%v", err)
			}
			md.File = path
			md.Pkg = pkgName
			if sp.ChanInvs == nil {
				sp.ChanInvs = map[string]*MacroDef{}
			}
			key := md.Name
			if i := strings.Index(rest, "("); i > 0 {
				key = strings.TrimSpace(rest[:i])
			}
			sp.ChanInvs[key] = md
			cur = nil
		case "guarded_by":
			// guarded_by lock: a, b   [; C19]
			parts := strings.SplitN(rest, ":", 2)
			if len(parts) != 2 {
				return fail("guarded_by lock: vars")
			}
			vars := parts[1]
			var props []string
			if j := strings.Index(vars, ";"); j >= 0 {
				props = splitList(vars[j+1:])
				vars = vars[:j]
			}
			if sp.Guarded == nil {
				sp.Guarded = map[string]GuardDef{}
			}
			for _, v := range splitList(vars) {
				sp.Guarded[pkgName+"."+v] = GuardDef{Lock: strings.TrimSpace(parts[0]), Props: props}
			}
			cur = nil
		case "confined":
			// confined Type.field: F1, F2 [; C05]  -- only the listed functions (and the function literals
			// inside them) touch the field: an ownership condition checked over the SSA of the whole repository
			parts := strings.SplitN(rest, ":", 2)
			if len(parts) != 2 {
				return fail("confined Type.field: functions")
			}
			fns := parts[1]
			var props []string
			if j := strings.Index(fns, ";"); j >= 0 {
				props = splitList(fns[j+1:])
				fns = fns[:j]
			}
			sp.Confined = append(sp.Confined, ConfinedDef{Field: pkgName + "." + strings.TrimSpace(parts[0]), Owners: splitList(fns), Props: props, Src: strings.TrimSpace(rest)})
			cur = nil
		case "global_nonnil":
			sp.NonNil = append(sp.NonNil, splitList(rest)...)
			cur = nil
		case "nosafety":
			cur.NoSafety = strings.Trim(strings.TrimSpace(rest), `"`)
			if cur.NoSafety == "" {
				cur.NoSafety = "unspecified"
			}
		case "callsarg":
			cur.CallsArg = true
		case "spawn_checked":
			cur.SpawnChecked = true
		case "unreachable_return":
			cur.DeadReturns = append(cur.DeadReturns, strings.Trim(strings.TrimSpace(rest), `"`))
		case "merge_paths":
			cur.Merge = true
		case "never_returns":
			cur.NeverReturns = true
		case "assume_pure":
			sp.Pure = append(sp.Pure, splitList(rest)...)
			cur = nil
		case "invariant_of":
			// invariant_of (x *T) expr
			m := regexp.MustCompile(`^\((\w+)\s+\*?([\w.]+)\)\s+(.+)$`).FindStringSubmatch(rest)
			if m == nil {
				return fail("bad invariant_of")
			}
			e, err := ParseExpr(m[3])
			if err != nil {
				return fail("%v", err)
			}
			sp.Invs = append(sp.Invs, &StructInv{Type: m[2], Var: m[1], E: e, Src: m[3]})
			cur = nil
		default:
			return fail("unknown contract keyword %q", word)
		}
	}
	return nil
}

var loopHdrRe = regexp.MustCompile(`^loop\s+(\d+)\s*(\(([^)]*)\))?\s*:$`)

var smtFunRe = regexp.MustCompile(`^\((declare-fun|define-fun|define-fun-rec|declare-const)\s+(\S+)\s+(.*)$`)

func (sp *Specs) noteSMTFun(text string) {
	m := smtFunRe.FindStringSubmatch(text)
	if m == nil {
		return
	}
	name := m[2]
	rest := m[3]
	if m[1] == "declare-const" {
		sp.SMTFuns[name] = strings.TrimSuffix(strings.TrimSpace(rest), ")")
		return
	}
	// skip the parenthesised argument list, then read the result sort
	depth := 0
	i := 0
	for ; i < len(rest); i++ {
		if rest[i] == '(' {
			depth++
		} else if rest[i] == ')' {
			depth--
			if depth == 0 {
				i++
				break
			}
		}
	}
	r := strings.TrimSpace(rest[i:])
	// result sort: one token or parenthesised
	if strings.HasPrefix(r, "(") {
		depth = 0
		for j := 0; j < len(r); j++ {
			if r[j] == '(' {
				depth++
			} else if r[j] == ')' {
				depth--
				if depth == 0 {
					sp.SMTFuns[name] = r[:j+1]
					return
				}
			}
		}
	}
	f := strings.FieldsFunc(r, func(c rune) bool { return c == ' ' || c == ')' })
	if len(f) > 0 {
		sp.SMTFuns[name] = f[0]
	}
}

func splitList(s string) []string {
	var out []string
	for _, p := range strings.FieldsFunc(s, func(c rune) bool { return c == ',' || c == ' ' }) {
		if p != "" {
			out = append(out, p)
		}
	}
	return out
}

// splitTop splits at commas that are not inside brackets.
func splitTop(s string) []string {
	var out []string
	depth := 0
	start := 0
	for i, c := range s {
		switch c {
		case '(', '[', '{':
			depth++
		case ')', ']', '}':
			depth--
		case ',':
			if depth == 0 {
				out = append(out, strings.TrimSpace(s[start:i]))
				start = i + 1
			}
		}
	}
	if strings.TrimSpace(s[start:]) != "" {
		out = append(out, strings.TrimSpace(s[start:]))
	}
	return out
}

// parseFuncHeader parses "(recv *T) Name(params) (results)" or "pkg.Name(params) result".
func parseFuncHeader(h string, fc *FuncContract) error {
	h = strings.TrimSpace(h)
	if strings.HasPrefix(h, "(") {
		j := matchParen(h, 0)
		if j < 0 {
			return fmt.Errorf("bad receiver in %q", h)
		}
		recv := strings.Fields(h[1:j])
		if len(recv) != 2 {
			return fmt.Errorf("receiver must be (name Type) in %q", h)
		}
		ty := recv[1]
		if strings.HasPrefix(ty, "*") {
			fc.RecvPtr = true
			ty = ty[1:]
		}
		if k := strings.LastIndex(ty, "."); k >= 0 {
			fc.PkgName = ty[:k]
			ty = ty[k+1:]
		}
		fc.Recv = ty
		fc.Params = append(fc.Params, Param{recv[0], recv[1]})
		h = strings.TrimSpace(h[j+1:])
	}
	i := strings.Index(h, "(")
	if i < 0 {
		return fmt.Errorf("missing parameter list in %q", h)
	}
	name := strings.TrimSpace(h[:i])
	if k := strings.LastIndex(name, "."); k >= 0 {
		fc.PkgName = name[:k]
		name = name[k+1:]
	}
	fc.Name = name
	j := matchParen(h, i)
	if j < 0 {
		return fmt.Errorf("unbalanced parameter list in %q", h)
	}
	fc.Params = append(fc.Params, parseParams(h[i+1:j])...)
	res := strings.TrimSpace(h[j+1:])
	if strings.HasPrefix(res, "(") {
		k := matchParen(res, 0)
		if k < 0 {
			return fmt.Errorf("unbalanced result list in %q", h)
		}
		fc.Results = parseParams(res[1:k])
	} else if res != "" {
		fc.Results = []Param{{"result", res}}
	}
	return nil
}

func matchParen(s string, i int) int {
	depth := 0
	for j := i; j < len(s); j++ {
		switch s[j] {
		case '(':
			depth++
		case ')':
			depth--
			if depth == 0 {
				return j
			}
		}
	}
	return -1
}

func parseParams(s string) []Param {
	var out []Param
	parts := splitTop(s)
	for _, p := range parts {
		f := strings.Fields(p)
		switch len(f) {
		case 0:
		case 1:
			out = append(out, Param{f[0], ""})
		default:
			out = append(out, Param{f[0], strings.Join(f[1:], " ")})
		}
	}
	// "a, b string": fill missing types from the right; a lone type (unnamed result) keeps Name=type
	for i := len(out) - 2; i >= 0; i-- {
		if out[i].Type == "" && out[i+1].Type != "" {
			out[i].Type = out[i+1].Type
		}
	}
	unnamed := true
	for _, p := range out {
		if p.Type != "" && p.Type != p.Name {
			unnamed = false
		}
	}
	if unnamed {
		for i := range out {
			out[i] = Param{fmt.Sprintf("result%d", i), out[i].Name}
		}
		if len(out) == 1 {
			out[0].Name = "result"
		}
	}
	return out
}

func parseMacro(s string) (*MacroDef, error) {
	parts := strings.SplitN(s, ":=", 2)
	if len(parts) != 2 {
		return nil, fmt.Errorf("definition needs := in %q", s)
	}
	fc := &FuncContract{}
	if err := parseFuncHeader(strings.TrimSpace(parts[0]), fc); err != nil {
		return nil, err
	}
	e, err := ParseExpr(parts[1])
	if err != nil {
		return nil, err
	}
	return &MacroDef{Name: fc.Name, Recv: fc.Recv, Params: fc.Params, Body: e, Src: parts[1]}, nil
}

// LoadSpecs reads /verif/specs/*.spec and the contract files of the given repo package dirs.
func LoadSpecs(specDir string, pkgDirs map[string]string) (*Specs, error) {
	sp := NewSpecs()
	files, _ := filepath.Glob(filepath.Join(specDir, "*.spec"))
	sort.Strings(files)
	for _, f := range files {
		if err := sp.LoadFile(f, "spec"); err != nil {
			return nil, err
		}
	}
	var names []string
	for n := range pkgDirs {
		names = append(names, n)
	}
	sort.Strings(names)
	for _, n := range names {
		f := filepath.Join(pkgDirs[n], "verif_contracts.go")
		if _, err := os.Stat(f); err == nil {
			if err := sp.LoadFile(f, n); err != nil {
				return nil, err
			}
		}
	}
	sp.finishAxioms()
	return sp, nil
}

func matchPattern(pat, name string) bool {
	if strings.HasPrefix(pat, "*") && len(pat) > 1 {
		return strings.HasSuffix(name, pat[1:])
	}
	if strings.HasSuffix(pat, "*") {
		return strings.HasPrefix(name, strings.TrimSuffix(pat, "*"))
	}
	return pat == name
}

// ConfinedDef: a struct field that only the listed functions of its package may touch (goroutine confinement:
// the field belongs to the goroutine running those functions).
type ConfinedDef struct {
	Field  string // pkg.Type.field
	Owners []string
	Props  []string
	Src    string
}
