package main

import "strings"

// Minimal s-expression reader used for lemma saturation and model parsing.

type SExp struct {
	Atom string
	List []*SExp
}

func (s *SExp) IsAtom() bool { return s.List == nil && s.Atom != "" }

func (s *SExp) String() string {
	if s.List == nil {
		return s.Atom
	}
	var b strings.Builder
	b.WriteByte('(')
	for i, c := range s.List {
		if i > 0 {
			b.WriteByte(' ')
		}
		b.WriteString(c.String())
	}
	b.WriteByte(')')
	return b.String()
}

func parseSExps(src string) []*SExp {
	var out []*SExp
	i := 0
	for {
		e, j := parseSExp(src, i)
		if e == nil {
			return out
		}
		out = append(out, e)
		i = j
	}
}

func parseSExp(s string, i int) (*SExp, int) {
	for i < len(s) && (s[i] == ' ' || s[i] == '\n' || s[i] == '\t' || s[i] == '\r') {
		i++
	}
	if i >= len(s) {
		return nil, i
	}
	switch s[i] {
	case '(':
		e := &SExp{List: []*SExp{}}
		i++
		for {
			for i < len(s) && (s[i] == ' ' || s[i] == '\n' || s[i] == '\t' || s[i] == '\r') {
				i++
			}
			if i >= len(s) {
				return e, i
			}
			if s[i] == ')' {
				return e, i + 1
			}
			c, j := parseSExp(s, i)
			if c == nil {
				return e, j
			}
			e.List = append(e.List, c)
			i = j
		}
	case ')':
		return nil, i + 1
	case '"':
		j := i + 1
		for j < len(s) {
			if s[j] == '"' {
				if j+1 < len(s) && s[j+1] == '"' {
					j += 2
					continue
				}
				break
			}
			j++
		}
		return &SExp{Atom: s[i : j+1]}, j + 1
	case '|':
		j := strings.IndexByte(s[i+1:], '|')
		if j < 0 {
			return &SExp{Atom: s[i:]}, len(s)
		}
		return &SExp{Atom: s[i : i+j+2]}, i + j + 2
	}
	j := i
	for j < len(s) && s[j] != ' ' && s[j] != '\n' && s[j] != '\t' && s[j] != '(' && s[j] != ')' && s[j] != '\r' {
		j++
	}
	return &SExp{Atom: s[i:j]}, j
}

func (s *SExp) walk(f func(*SExp)) {
	f(s)
	for _, c := range s.List {
		c.walk(f)
	}
}

func (s *SExp) head() string {
	if len(s.List) > 0 && s.List[0].IsAtom() {
		return s.List[0].Atom
	}
	return ""
}

// splitLemmas: for every term (bslice a o (+ x y)) in the text, the instance
// x>=0 & y>=0 => bslice(a,o,x+y) = bslice(a,o,x) ++ bslice(a,o+x,y) of the (valid) split law.
// E-matching cannot invent the two halves by itself; this makes them available.
func splitLemmas(text string, bound map[string]bool) []string {
	seen := map[string]bool{}
	var out []string
	for _, e := range parseSExps(text) {
		e.walk(func(t *SExp) {
			if t.head() != "bslice" || len(t.List) != 4 {
				return
			}
			l := t.List[3]
			if l.head() != "+" || len(l.List) != 3 {
				return
			}
			a, o, x, y := t.List[1].String(), t.List[2].String(), l.List[1].String(), l.List[2].String()
			key := t.String()
			if seen[key] {
				return
			}
			// skip terms mentioning bound variables of quantifiers
			free := true
			t.walk(func(u *SExp) {
				if u.IsAtom() && bound[u.Atom] {
					free = false
				}
			})
			if !free {
				return
			}
			seen[key] = true
			out = append(out, "(assert (=> (and (>= "+x+" 0) (>= "+y+" 0)) (= "+key+" (bconcat (bslice "+a+" "+o+" "+x+") (bslice "+a+" (+ "+o+" "+x+") "+y+")))))")
		})
	}
	return out
}

// boundVars collects the names bound by quantifiers in the text.
func boundVars(text string) map[string]bool {
	b := map[string]bool{}
	for _, e := range parseSExps(text) {
		e.walk(func(t *SExp) {
			if h := t.head(); (h == "forall" || h == "exists") && len(t.List) >= 2 {
				for _, v := range t.List[1].List {
					if len(v.List) == 2 {
						b[v.List[0].Atom] = true
					}
				}
			}
		})
	}
	return b
}
