package main

import (
	"fmt"
	"go/types"
	"math/big"
	"strings"
	"sync"

	"golang.org/x/tools/go/ssa"
)

// Evaluation of contract expressions over a symbolic state.

type EV struct {
	V Val
	T types.Type // Go type when known (nil for purely logical values)
}

type pkgRef struct{ p *ssa.Package }
type typeRef struct{ t types.Type }

type Env struct {
	ex     *Exec
	st     *State
	old    *State
	vars   map[string]EV
	bound  map[string]EV // quantified variables and macro parameters (take precedence over everything)
	frame  *Frame
	loop   *Loop
	pkg    *ssa.Package
	depth  int
	oldMid bool   // old() refers to a state inside the function (iteration start): locals are visible there
	cur    *State // inside old(...): the current state, for now(...)
}

type bindErr struct{ msg string }

func (e *bindErr) Error() string { return e.msg }

func (ex *Exec) baseEnv(st *State) *Env {
	env := &Env{ex: ex, st: st, old: ex.entry, vars: map[string]EV{}, pkg: ex.fn.Pkg}
	if env.pkg == nil && ex.fn.Parent() != nil {
		env.pkg = ex.fn.Parent().Pkg
	}
	return env
}

func (env *Env) with(name string, v EV) *Env {
	n := *env
	n.bound = make(map[string]EV, len(env.bound)+1)
	for k, x := range env.bound {
		n.bound[k] = x
	}
	n.bound[name] = v
	return &n
}

func (env *Env) evalBool(e Expr) (Term, error) {
	v, err := env.eval(e)
	if err != nil {
		return Term{}, err
	}
	t, ok := v.V.(Term)
	if !ok || t.Sort != SBool {
		return Term{}, fmt.Errorf("boolean expected, got %T %v", v.V, v.V)
	}
	return t, nil
}

func (env *Env) evalTerm(e Expr) (Term, error) {
	v, err := env.eval(e)
	if err != nil {
		return Term{}, err
	}
	t, ok := v.V.(Term)
	if !ok {
		return Term{}, fmt.Errorf("scalar expected, got %T", v.V)
	}
	return t, nil
}

func logicalSort(name string) (string, bool) {
	switch name {
	case "int", "ref", "uint", "int64", "uint32", "uint64", "uint16", "byte":
		return SInt, true
	case "bool":
		return SBool, true
	case "bytes", "string":
		return SBytes, true
	case "f64", "float64":
		return SF64, true
	case "log":
		return SLog, true
	case "elem":
		return SElem, true
	}
	if strings.HasPrefix(name, "(") {
		return name, true
	}
	return "", false
}

func (env *Env) eval(e Expr) (EV, error) {
	ex := env.ex
	switch x := e.(type) {
	case *EInt:
		n, ok := new(big.Int).SetString(x.V, 0)
		if !ok {
			return EV{}, fmt.Errorf("bad integer %q", x.V)
		}
		return EV{V: BigT(n)}, nil
	case *EStr:
		return EV{V: ex.bytesLit(x.V), T: types.Typ[types.String]}, nil
	case *EBool:
		if x.V {
			return EV{V: True}, nil
		}
		return EV{V: False}, nil
	case *ENil:
		return EV{V: IntT(0)}, nil
	case *EIdent:
		return env.ident(x.Name)
	case *EOld:
		if env.old == nil {
			return EV{}, fmt.Errorf("old() not available here")
		}
		n := *env
		n.st = env.old
		n.cur = env.st
		v, err := n.eval(x.X)
		if err != nil {
			return v, err
		}
		// a struct denoted by reference is read now, in the old state (a lazy reference would be
		// dereferenced later, in whatever state the surrounding expression is evaluated in)
		if _, lazy := v.V.(StructRefV); lazy && v.T != nil {
			v.V = n.materialize(v)
		}
		return v, nil
	case *EUnary:
		v, err := env.eval(x.X)
		if err != nil {
			return EV{}, err
		}
		switch x.Op {
		case "!":
			t, ok := v.V.(Term)
			if !ok || t.Sort != SBool {
				return EV{}, fmt.Errorf("! needs a boolean")
			}
			return EV{V: Not(t)}, nil
		case "-":
			t, ok := v.V.(Term)
			if !ok {
				return EV{}, fmt.Errorf("- needs a number")
			}
			return EV{V: Sub(IntT(0), t), T: v.T}, nil
		case "*":
			if v.T != nil {
				if p, ok := v.T.Underlying().(*types.Pointer); ok {
					if t, ok := v.V.(Term); ok {
						if kindOf(p.Elem()) == KStruct {
							return EV{V: StructRefV{t}, T: p.Elem()}, nil
						}
						l := Loc{Kind: LHeap1, Heap: "box." + typeKey(p.Elem()), Ref: t, Typ: p.Elem()}
						return EV{V: ex.loadLoc(env.st, l), T: p.Elem()}, nil
					}
				}
			}
			return EV{}, fmt.Errorf("cannot dereference")
		}
	case *EBinary:
		return env.binary(x)
	case *ECond:
		c, err := env.evalBool(x.C)
		if err != nil {
			return EV{}, err
		}
		a, err := env.eval(x.A)
		if err != nil {
			return EV{}, err
		}
		b, err := env.eval(x.B)
		if err != nil {
			return EV{}, err
		}
		t := a.T
		if t == nil {
			t = b.T
		}
		if ra, ok := a.V.(StructRefV); ok {
			if rb, ok := b.V.(StructRefV); ok {
				return EV{V: StructRefV{Ite(c, ra.Ref, rb.Ref)}, T: t}, nil
			}
		}
		av, bv := env.materialize(a), env.materialize(b)
		if t == nil {
			at, ok1 := av.(Term)
			bt, ok2 := bv.(Term)
			if ok1 && ok2 {
				return EV{V: Ite(c, at, bt)}, nil
			}
			return EV{}, fmt.Errorf("untyped conditional over composite values")
		}
		return EV{V: ex.iteVal(c, av, bv, t), T: t}, nil
	case *ESel:
		return env.sel(x)
	case *EIndex:
		return env.index(x)
	case *ESlice:
		return env.slice(x)
	case *ECall:
		return env.call(x)
	case *EQuant:
		n := env
		var decl []string
		for _, qv := range x.Vars {
			sort, ok := logicalSort(qv.Type)
			var gt types.Type
			if !ok {
				// a Go type name: references are Int; a pointer type gives the variable its fields
				sort = SInt
				if te, perr := ParseExpr(qv.Type); perr == nil {
					if t, terr := env.typeArg(te); terr == nil {
						if _, isPtr := t.Underlying().(*types.Pointer); isPtr {
							gt = t
						}
					}
				}
			}
			ex.D.n++
			name := fmt.Sprintf("%s!%d", qv.Name, ex.D.n)
			decl = append(decl, fmt.Sprintf("(%s %s)", name, sort))
			if sort == SInt && (qv.Type == "int" || qv.Type == "ref") {
				gt = nil
			}
			n = n.with(qv.Name, EV{V: Term{name, sort}, T: gt})
		}
		body, err := n.evalBool(x.Body)
		if err != nil {
			return EV{}, err
		}
		q := "exists"
		if x.Forall {
			q = "forall"
		}
		return EV{V: Term{fmt.Sprintf("(%s (%s) %s)", q, strings.Join(decl, " "), body.S), SBool}}, nil
	}
	return EV{}, fmt.Errorf("cannot evaluate %T", e)
}

// materialize turns lazy struct references into struct values.
func (env *Env) materialize(v EV) Val {
	if r, ok := v.V.(StructRefV); ok {
		return env.ex.loadLoc(env.st, Loc{Kind: LStruct, Ref: r.Ref, Typ: v.T})
	}
	return v.V
}

func (env *Env) ident(name string) (EV, error) {
	ex := env.ex
	if v, ok := env.bound[name]; ok {
		return v, nil
	}
	inOld := env.old != nil && env.st == env.old && !env.oldMid
	if v, ok := env.vars[name]; ok && (env.frame == nil || inOld) {
		return v, nil
	}
	if name == "#i" || name == "#s" || name == "#visited" {
		return env.rangeVar(name)
	}
	// source-level locals of the frame (loop invariants)
	if env.frame != nil && !inOld {
		var found []*ssa.Alloc
		for a := range localAllocs(env.frame.Fn) {
			if a.Comment == name {
				found = append(found, a)
			}
		}
		if len(found) == 0 {
			if a := ex.ctx.renamedLocal(env.frame.Fn, name); a != nil {
				found = []*ssa.Alloc{a}
				ex.assumed[fmt.Sprintf("local %q of %s was renamed to %q since the contract was written; bound by position", name, funcKey(env.frame.Fn), a.Comment)] = true
			}
		}
		if len(found) > 1 && env.loop != nil {
			var dom []*ssa.Alloc
			for _, a := range found {
				if a.Block().Dominates(env.loop.Header) {
					dom = append(dom, a)
				}
			}
			found = dom
			if len(found) > 1 {
				// prefer the variable the loop itself assigns
				var assigned []*ssa.Alloc
				for _, a := range found {
					for _, r := range *a.Referrers() {
						if st, ok := r.(*ssa.Store); ok && st.Addr == a && env.loop.Blocks[st.Block()] {
							assigned = append(assigned, a)
							break
						}
					}
				}
				if len(assigned) == 1 {
					found = assigned
				}
			}
		}
		if len(found) == 1 {
			a := found[0]
			fr := env.st.Frames[env.frame.ID]
			t := deref(a.Type())
			if fr == nil {
				return EV{}, &bindErr{fmt.Sprintf("frame of local %s not available (old state)", name)}
			}
			switch rv := fr.Regs[a].(type) {
			case Term: // struct / array local living on the heap
				if kindOf(t) == KStruct {
					return EV{V: StructRefV{rv}, T: t}, nil
				}
				return EV{V: rv, T: t}, nil
			}
			return EV{V: ex.loadLoc(env.st, Loc{Kind: LCell, Frame: fr.ID, Alloc: a, Typ: t}), T: t}, nil
		}
		if len(found) > 1 {
			return EV{}, &bindErr{fmt.Sprintf("local %s is ambiguous", name)}
		}
	}
	if v, ok := env.vars[name]; ok {
		return v, nil
	}
	// free variables of a function literal under contract
	if env.frame != nil || ex.fn.Parent() != nil {
		fr := env.st.Frames[1]
		if env.frame != nil {
			fr = env.st.Frames[env.frame.ID]
		}
		if fr != nil {
			for i, fv := range fr.Fn.FreeVars {
				if fv.Name() == name && i < len(fr.Free) {
					t := deref(fv.Type())
					switch b := fr.Free[i].(type) {
					case AddrV:
						return EV{V: ex.loadLoc(env.st, b.L), T: t}, nil
					case Term:
						if kindOf(t) == KStruct {
							return EV{V: StructRefV{b}, T: t}, nil
						}
						return EV{V: b, T: t}, nil
					}
				}
			}
		}
	}
	// package-level names
	if env.pkg != nil {
		if m, ok := env.pkg.Members[name]; ok {
			switch g := m.(type) {
			case *ssa.Global:
				t := deref(g.Type())
				a := ex.globalAddr(g)
				if rt, ok := a.(Term); ok {
					return EV{V: StructRefV{rt}, T: t}, nil
				}
				return EV{V: ex.loadLoc(env.st, a.(AddrV).L), T: t}, nil
			case *ssa.NamedConst:
				return EV{V: ex.constVal(env.st, g.Value), T: g.Type()}, nil
			case *ssa.Type:
				return EV{V: typeRef{g.Type()}}, nil
			}
		}
		for _, imp := range env.pkg.Pkg.Imports() {
			if imp.Name() == name {
				if p := ex.ctx.prog.Package(imp); p != nil {
					return EV{V: pkgRef{p}}, nil
				}
			}
		}
		if p, ok := ex.ctx.byName[name]; ok {
			return EV{V: pkgRef{p}}, nil
		}
	}
	if sort, ok := ex.ctx.specs.SMTFuns[name]; ok {
		return EV{V: Term{name, sort}}, nil
	}
	return EV{}, &bindErr{fmt.Sprintf("unbound identifier %s", name)}
}

var allocCache = map[*ssa.Function]map[*ssa.Alloc]bool{}
var allocMu sync.Mutex // functions are verified in parallel

func localAllocs(fn *ssa.Function) map[*ssa.Alloc]bool {
	allocMu.Lock()
	defer allocMu.Unlock()
	if m, ok := allocCache[fn]; ok {
		return m
	}
	m := map[*ssa.Alloc]bool{}
	for _, b := range fn.Blocks {
		for _, in := range b.Instrs {
			if a, ok := in.(*ssa.Alloc); ok && a.Comment != "" {
				m[a] = true
			}
		}
	}
	allocCache[fn] = m
	return m
}

// rangeVar resolves #i (completed iterations) and #s (slice ranged over) of the current loop.
func (env *Env) rangeVar(name string) (EV, error) {
	if env.loop == nil || env.frame == nil {
		return EV{}, &bindErr{name + " outside a loop"}
	}
	fr := env.st.Frames[env.frame.ID]
	if name == "#visited" {
		for b := range env.loop.Blocks {
			for _, in := range b.Instrs {
				if n, ok := in.(*ssa.Next); ok {
					if it, ok := fr.Regs[n.Iter].(IterV); ok {
						return EV{V: it.Visited}, nil
					}
				}
			}
		}
		return EV{}, &bindErr{"#visited: loop is not a map range"}
	}
	// header: tN = *rangeindex; tM = tN + 1; *rangeindex = tM; tK = tM < len; the slice is the operand of len
	h := env.loop.Header
	for _, in := range h.Instrs {
		switch x := in.(type) {
		case *ssa.UnOp:
			if a, ok := x.X.(*ssa.Alloc); ok && a.Comment == "rangeindex" && name == "#i" {
				cur := env.ex.loadLoc(env.st, Loc{Kind: LCell, Frame: fr.ID, Alloc: a, Typ: types.Typ[types.Int]})
				return EV{V: Add(cur.(Term), IntT(1)), T: types.Typ[types.Int]}, nil
			}
		case *ssa.BinOp:
			if name == "#s" {
				if c, ok := x.Y.(*ssa.Call); ok {
					if b, ok := c.Call.Value.(*ssa.Builtin); ok && b.Name() == "len" {
						sv := c.Call.Args[0]
						if v, ok := fr.Regs[sv]; ok {
							return EV{V: v, T: sv.Type()}, nil
						}
					}
				}
			}
		}
	}
	return EV{}, &bindErr{name + ": loop is not a range loop over a slice"}
}

func (env *Env) binary(x *EBinary) (EV, error) {
	ex := env.ex
	switch x.Op {
	case "&&", "||", "==>", "<==>":
		a, err := env.evalBool(x.X)
		if err != nil {
			return EV{}, err
		}
		// short-circuit keeps guards syntactically in front
		b, err := env.evalBool(x.Y)
		if err != nil {
			return EV{}, err
		}
		switch x.Op {
		case "&&":
			return EV{V: And(a, b)}, nil
		case "||":
			return EV{V: Or(a, b)}, nil
		case "==>":
			return EV{V: Implies(a, b)}, nil
		default:
			return EV{V: Eq(a, b)}, nil
		}
	}
	a, err := env.eval(x.X)
	if err != nil {
		return EV{}, err
	}
	b, err := env.eval(x.Y)
	if err != nil {
		return EV{}, err
	}
	switch x.Op {
	case "==", "!=":
		e, err := env.equal(a, b)
		if err != nil {
			return EV{}, err
		}
		if x.Op == "!=" {
			e = Not(e)
		}
		return EV{V: e}, nil
	}
	at, ok1 := a.V.(Term)
	bt, ok2 := b.V.(Term)
	if !ok1 || !ok2 {
		return EV{}, fmt.Errorf("operator %s needs scalar operands", x.Op)
	}
	if x.Op == "++" {
		if at.Sort == SLog {
			return EV{V: App(SLog, "lsnoc", at, bt)}, nil
		}
		if at.S == "bempty" {
			return EV{V: bt, T: b.T}, nil
		}
		if bt.S == "bempty" {
			return EV{V: at, T: a.T}, nil
		}
		return EV{V: App(SBytes, "bconcat", at, bt), T: types.Typ[types.String]}, nil
	}
	if at.Sort == SF64 {
		switch x.Op {
		case "<":
			return EV{V: App(SBool, "flt", at, bt)}, nil
		case ">":
			return EV{V: App(SBool, "flt", bt, at)}, nil
		case "<=":
			return EV{V: App(SBool, "fle", at, bt)}, nil
		case ">=":
			return EV{V: App(SBool, "fle", bt, at)}, nil
		case "+":
			return EV{V: App(SF64, "fadd", at, bt), T: a.T}, nil
		case "-":
			return EV{V: App(SF64, "fsub", at, bt), T: a.T}, nil
		case "*":
			return EV{V: App(SF64, "fmul", at, bt), T: a.T}, nil
		case "/":
			return EV{V: App(SF64, "fdiv", at, bt), T: a.T}, nil
		}
	}
	t := a.T
	if t == nil {
		t = b.T
	}
	switch x.Op {
	case "+":
		if at.Sort == SBytes {
			return EV{V: App(SBytes, "bconcat", at, bt), T: t}, nil
		}
		return EV{V: Add(at, bt), T: t}, nil
	case "-":
		return EV{V: Sub(at, bt), T: t}, nil
	case "*":
		return EV{V: Mul(at, bt), T: t}, nil
	case "/":
		return EV{V: App(SInt, "div", at, bt), T: t}, nil
	case "%":
		return EV{V: App(SInt, "mod", at, bt), T: t}, nil
	case "<":
		return EV{V: Lt(at, bt)}, nil
	case "<=":
		return EV{V: Le(at, bt)}, nil
	case ">":
		return EV{V: Gt(at, bt)}, nil
	case ">=":
		return EV{V: Ge(at, bt)}, nil
	}
	_ = ex
	return EV{}, fmt.Errorf("unknown operator %s", x.Op)
}

func (env *Env) equal(a, b EV) (Term, error) {
	ex := env.ex
	av, bv := env.materialize(a), env.materialize(b)
	t := a.T
	if t == nil {
		t = b.T
	}
	switch x := av.(type) {
	case Term:
		switch y := bv.(type) {
		case Term:
			return Eq(x, y), nil
		case SliceV: // nil == slice
			return Eq(y.Arr, IntT(0)), nil
		case IfaceV:
			return Eq(y.Tag, IntT(0)), nil
		}
	case SliceV:
		switch y := bv.(type) {
		case Term:
			return Eq(x.Arr, IntT(0)), nil
		case SliceV:
			return And(Eq(x.Arr, y.Arr), Eq(x.Off, y.Off), Eq(x.Len, y.Len), Eq(x.Cap, y.Cap)), nil
		}
	case IfaceV:
		switch y := bv.(type) {
		case Term:
			return Eq(x.Tag, IntT(0)), nil
		case IfaceV:
			return And(Eq(x.Tag, y.Tag), Eq(x.Ref, y.Ref)), nil
		}
	case *StructV:
		if y, ok := bv.(*StructV); ok {
			return ex.structEq(x, y), nil
		}
	}
	return Term{}, fmt.Errorf("cannot compare %T with %T", av, bv)
}

func namedOf(t types.Type) *types.Named {
	if t == nil {
		return nil
	}
	if p, ok := t.Underlying().(*types.Pointer); ok {
		t = p.Elem()
	}
	if p, ok := t.(*types.Pointer); ok {
		t = p.Elem()
	}
	n, _ := types.Unalias(t).(*types.Named)
	return n
}

func ghostTypeKeys(t types.Type) []string {
	n := namedOf(t)
	if n == nil {
		if t != nil {
			return []string{typeKey(t)}
		}
		return nil
	}
	keys := []string{typeKey(n), n.Obj().Name()}
	return keys
}

// findGhost resolves a ghost field on a value of Go type t: first by the type's own names,
// then (interfaces embedding other interfaces, e.g. hash.Hash64 embedding io.Writer) by a
// field name that is declared exactly once.
func (env *Env) findGhost(t types.Type, name string) *GhostField {
	for _, k := range ghostTypeKeys(t) {
		if g, ok := env.ex.ctx.specs.Ghosts[k+"."+name]; ok {
			return g
		}
	}
	if g, ok := env.ex.ctx.specs.Ghosts["*."+name]; ok {
		return g
	}
	var found *GhostField
	n := 0
	for _, g := range env.ex.ctx.specs.Ghosts {
		if g.Name == name {
			found = g
			n++
		}
	}
	if n == 1 && t != nil {
		if _, isIface := t.Underlying().(*types.Interface); isIface {
			return found
		}
	}
	return nil
}

func (env *Env) ghostSort(g *GhostField) (string, types.Type) {
	if s, ok := logicalSort(g.Sort); ok {
		return s, nil
	}
	return "", nil
}

// structRefOf gives the reference of the struct a value denotes (pointer or lazy struct).
func structRefOf(v EV) (Term, types.Type, bool) {
	switch x := v.V.(type) {
	case StructRefV:
		return x.Ref, v.T, true
	case Term:
		if v.T != nil {
			if p, ok := v.T.Underlying().(*types.Pointer); ok && kindOf(p.Elem()) == KStruct {
				return x, p.Elem(), true
			}
		}
	}
	return Term{}, nil, false
}

func (env *Env) sel(x *ESel) (EV, error) {
	ex := env.ex
	v, err := env.eval(x.X)
	if err != nil {
		return EV{}, err
	}
	switch p := v.V.(type) {
	case pkgRef:
		m, ok := p.p.Members[x.Name]
		if !ok {
			return EV{}, &bindErr{fmt.Sprintf("%s.%s not found", p.p.Pkg.Name(), x.Name)}
		}
		switch g := m.(type) {
		case *ssa.Global:
			t := deref(g.Type())
			a := ex.globalAddr(g)
			if rt, ok := a.(Term); ok {
				return EV{V: StructRefV{rt}, T: t}, nil
			}
			return EV{V: ex.loadLoc(env.st, a.(AddrV).L), T: t}, nil
		case *ssa.NamedConst:
			return EV{V: ex.constVal(env.st, g.Value), T: g.Type()}, nil
		case *ssa.Type:
			return EV{V: typeRef{g.Type()}}, nil
		}
		return EV{}, fmt.Errorf("unsupported package member %s", x.Name)
	}
	// ghost fields first (they may be declared on interfaces and library types)
	if g := env.findGhost(v.T, x.Name); g != nil {
		{
			var ref Term
			switch r := v.V.(type) {
			case IfaceV:
				ref = r.Ref
			case Term:
				ref = r
			case StructRefV:
				ref = r.Ref
			default:
				return EV{}, fmt.Errorf("ghost field %s on %T", x.Name, v.V)
			}
			sort, _ := env.ghostSort(g)
			if sort == "" {
				return EV{}, fmt.Errorf("ghost field %s has unsupported sort %s", x.Name, g.Sort)
			}
			if g.Sort == "ref" {
				ex.markRef("ghost:" + g.Type + "." + g.Name)
			}
			h := ex.heap(env.st, "ghost:"+g.Type+"."+g.Name, ArrSort(sort))
			return EV{V: Select(h, ref)}, nil
		}
	}
	// struct fields
	if ref, st, ok := structRefOf(v); ok {
		s := structOf(st)
		for i := 0; i < s.NumFields(); i++ {
			if s.Field(i).Name() == x.Name {
				l, _ := ex.fieldLoc(st, ref, i)
				ft := s.Field(i).Type()
				if l.Kind == LStruct {
					return EV{V: StructRefV{l.Ref}, T: ft}, nil
				}
				return EV{V: ex.loadLoc(env.st, l), T: ft}, nil
			}
		}
		// promoted fields through embedded structs
		for i := 0; i < s.NumFields(); i++ {
			if s.Field(i).Embedded() && kindOf(s.Field(i).Type()) == KStruct {
				l, _ := ex.fieldLoc(st, ref, i)
				r, err := env.with("$emb", EV{V: StructRefV{l.Ref}, T: s.Field(i).Type()}).sel(&ESel{&EIdent{"$emb"}, x.Name})
				if err == nil {
					return r, nil
				}
			}
		}
		return EV{}, &bindErr{fmt.Sprintf("no field %s in %s", x.Name, typeKey(st))}
	}
	if sv, ok := v.V.(*StructV); ok {
		for i := 0; i < sv.T.NumFields(); i++ {
			if sv.T.Field(i).Name() == x.Name {
				return EV{V: sv.F[i], T: sv.T.Field(i).Type()}, nil
			}
		}
		return EV{}, &bindErr{fmt.Sprintf("no field %s", x.Name)}
	}
	// pseudo fields of slices and interfaces
	switch p := v.V.(type) {
	case SliceV:
		switch x.Name {
		case "arr":
			return EV{V: p.Arr}, nil
		case "off":
			return EV{V: p.Off}, nil
		case "len":
			return EV{V: p.Len}, nil
		case "cap":
			return EV{V: p.Cap}, nil
		}
	case IfaceV:
		switch x.Name {
		case "tag":
			return EV{V: p.Tag}, nil
		case "ref":
			return EV{V: p.Ref}, nil
		}
	}
	return EV{}, &bindErr{fmt.Sprintf("cannot select %s from %T (type %v)", x.Name, v.V, v.T)}
}

func (env *Env) index(x *EIndex) (EV, error) {
	ex := env.ex
	v, err := env.eval(x.X)
	if err != nil {
		return EV{}, err
	}
	i, err := env.evalTerm(x.I)
	if err != nil {
		return EV{}, err
	}
	switch p := v.V.(type) {
	case SliceV:
		if v.T == nil {
			return EV{}, fmt.Errorf("index of untyped slice")
		}
		et := v.T.Underlying().(*types.Slice).Elem()
		l := ex.elemLoc(et, p.Arr, Ix(p.Off, i))
		if l.Kind == LStruct {
			return EV{V: StructRefV{l.Ref}, T: et}, nil
		}
		return EV{V: ex.loadLoc(env.st, l), T: et}, nil
	case Term:
		if p.Sort == SBytes {
			return EV{V: App(SInt, "bat", p, i)}, nil
		}
		if v.T != nil {
			if _, ok := v.T.Underlying().(*types.Map); ok {
				mi := mapInfoOf(v.T)
				if kindOf(mi.vt) == KStruct {
					return EV{V: StructRefV{ex.mapElemRef(mi, p, i)}, T: mi.vt}, nil
				}
				has := Select(Select(ex.mapDom(env.st, mi), p), i)
				return EV{V: ex.iteVal(has, ex.mapValue(env.st, mi, p, i), ex.zeroVal(env.st, mi.vt), mi.vt), T: mi.vt}, nil
			}
		}
		if strings.HasPrefix(p.Sort, "(Array") {
			return EV{V: Select(p, i)}, nil
		}
	}
	return EV{}, fmt.Errorf("cannot index %T", v.V)
}

func (env *Env) slice(x *ESlice) (EV, error) {
	ex := env.ex
	v, err := env.eval(x.X)
	if err != nil {
		return EV{}, err
	}
	switch p := v.V.(type) {
	case SliceV:
		if x.All {
			if v.T != nil && isByteSlice(v.T) {
				return EV{V: ex.content(env.st, p), T: types.Typ[types.String]}, nil
			}
			return EV{}, fmt.Errorf("[..] is only defined on byte slices")
		}
		lo := IntT(0)
		hi := p.Len
		if x.Lo != nil {
			if lo, err = env.evalTerm(x.Lo); err != nil {
				return EV{}, err
			}
		}
		if x.Hi != nil {
			if hi, err = env.evalTerm(x.Hi); err != nil {
				return EV{}, err
			}
		}
		return EV{V: SliceV{p.Arr, Add(p.Off, lo), Sub(hi, lo), Sub(p.Cap, lo)}, T: v.T}, nil
	case Term:
		if p.Sort == SBytes {
			if x.All {
				return v, nil
			}
			lo := IntT(0)
			hi := App(SInt, "blen", p)
			if x.Lo != nil {
				if lo, err = env.evalTerm(x.Lo); err != nil {
					return EV{}, err
				}
			}
			if x.Hi != nil {
				if hi, err = env.evalTerm(x.Hi); err != nil {
					return EV{}, err
				}
			}
			return EV{V: App(SBytes, "bsub", p, lo, hi), T: types.Typ[types.String]}, nil
		}
	}
	return EV{}, fmt.Errorf("cannot slice %T", v.V)
}

func (env *Env) call(x *ECall) (EV, error) {
	ex := env.ex
	if env.depth > 30 {
		return EV{}, fmt.Errorf("spec function recursion too deep (use an smt define-fun-rec)")
	}
	// method-style: receiver.pred(args) or calls(recv.Method)
	if s, ok := x.Fn.(*ESel); ok {
		recv, err := env.eval(s.X)
		if err != nil {
			return EV{}, err
		}
		if pr, isPkg := recv.V.(pkgRef); isPkg {
			if md, ok := ex.ctx.specs.Macros[s.Name]; ok && md.Pkg == pr.p.Pkg.Name() {
				args, err := env.args(x.Args)
				if err != nil {
					return EV{}, err
				}
				return env.macro(md, args)
			}
			return EV{}, &bindErr{fmt.Sprintf("no pred/spec %s in package %s", s.Name, pr.p.Pkg.Name())}
		}
		if _, isPkg := recv.V.(pkgRef); !isPkg {
			for _, k := range ghostTypeKeys(recv.T) {
				if md, ok := ex.ctx.specs.Macros[k+"."+s.Name]; ok {
					return env.macro(md, append([]EV{recv}, env.mustArgs(x.Args)...))
				}
			}
			return EV{}, &bindErr{fmt.Sprintf("no pred/spec %s on %v", s.Name, recv.T)}
		}
	}
	id, ok := x.Fn.(*EIdent)
	if !ok {
		return EV{}, fmt.Errorf("unsupported call form")
	}
	switch id.Name {
	case "entry":
		// entry(e) in a loop invariant: e in the state in which the loop was reached (remembered by loopEnter)
		if len(x.Args) != 1 || env.loop == nil || env.frame == nil {
			return EV{}, fmt.Errorf("entry(expr) is only available in a loop invariant")
		}
		if t, ok := env.st.Aux[entryKey(env.loop, x)]; ok {
			return EV{V: t, T: ex.auxTypes[entryKey(env.loop, x)]}, nil
		}
		return EV{}, &bindErr{"entry(): value at loop entry not recorded"}
	case "iter":
		// iter(e) in an invariant of an inner loop: e at the start of the current iteration of the
		// enclosing loop (for event loops: when the select was entered)
		if len(x.Args) != 1 || env.loop == nil || env.frame == nil {
			return EV{}, fmt.Errorf("iter(expr) is only available in the invariant of a nested loop")
		}
		var outer *Loop
		for _, l := range ex.ctx.loopsOf(env.frame.Fn) {
			if l != env.loop && l.Blocks[env.loop.Header] && (outer == nil || len(l.Blocks) < len(outer.Blocks)) {
				outer = l
			}
		}
		if outer == nil || ex.iterStart == nil || ex.iterStart[outer.Header] == nil {
			if ex.disc != nil {
				// while the outer loop is only being explored for the locations it writes, there is
				// no iteration start yet: the value is irrelevant there
				return env.eval(x.Args[0])
			}
			return EV{}, &bindErr{"iter(): no enclosing loop iteration"}
		}
		{
			n := *env
			n.st = ex.iterStart[outer.Header]
			n.cur = env.st
			n.oldMid = true
			v, err := n.eval(x.Args[0])
			if err != nil {
				return v, err
			}
			if _, lazy := v.V.(StructRefV); lazy && v.T != nil {
				v.V = n.materialize(v)
			}
			return v, nil
		}
	case "now":
		// now(e) inside old(...): e (typically a local variable) is evaluated in the current state
		if len(x.Args) != 1 {
			return EV{}, fmt.Errorf("now(expr)")
		}
		if env.cur == nil {
			return env.eval(x.Args[0])
		}
		n := *env
		n.st = env.cur
		n.cur = nil
		return n.eval(x.Args[0])
	case "sentAt":
		// sentAt("elemtype", ch): the send log of a channel given as a raw reference
		name, ok := x.Args[0].(*EStr)
		if !ok || len(x.Args) != 2 {
			return EV{}, fmt.Errorf("sentAt(\"elemtype\", ref)")
		}
		ref, err := env.evalTerm(x.Args[1])
		if err != nil {
			return EV{}, err
		}
		return EV{V: Select(ex.heap(env.st, "chan:"+name.V+"#sent", ArrSort(SLog)), ref)}, nil
	case "gh", "callsOf":
		// gh("Type.field", ref): a ghost field read at an arbitrary reference;
		// callsOf("pkg.Type.Method", ref): the call log of a logged method at an arbitrary receiver
		name, ok := x.Args[0].(*EStr)
		if !ok || len(x.Args) != 2 {
			return EV{}, fmt.Errorf("%s(\"name\", ref)", id.Name)
		}
		ref, err := env.evalTerm(x.Args[1])
		if err != nil {
			return EV{}, err
		}
		if id.Name == "callsOf" {
			return EV{V: Select(ex.heap(env.st, "calls:"+name.V, ArrSort(SLog)), ref)}, nil
		}
		g, ok := ex.ctx.specs.Ghosts[name.V]
		if !ok {
			return EV{}, &bindErr{"unknown ghost field " + name.V}
		}
		sort, _ := env.ghostSort(g)
		return EV{V: Select(ex.heap(env.st, "ghost:"+g.Type+"."+g.Name, ArrSort(sort)), ref)}, nil
	case "calls":
		if len(x.Args) != 1 {
			return EV{}, fmt.Errorf("calls(recv.Method)")
		}
		s, ok := x.Args[0].(*ESel)
		if !ok {
			return EV{}, fmt.Errorf("calls(recv.Method)")
		}
		recv, err := env.eval(s.X)
		if err != nil {
			return EV{}, err
		}
		key, ref, err := env.methodKeyOf(recv, s.Name)
		if err != nil {
			return EV{}, err
		}
		h := ex.heap(env.st, "calls:"+key, ArrSort(SLog))
		return EV{V: Select(h, ref)}, nil
	case "glog":
		// glog("name"): a global ghost log (e.g. the names passed to os.Remove)
		if s, ok := x.Args[0].(*EStr); ok {
			return EV{V: ex.heap(env.st, "glog:"+s.V, SLog)}, nil
		}
		return EV{}, fmt.Errorf("glog(\"name\")")
	case "spawned":
		if s, ok := x.Args[0].(*EStr); ok {
			return EV{V: ex.heap(env.st, "spawned:"+s.V, SLog)}, nil
		}
		return EV{}, fmt.Errorf("spawned(\"function name\")")
	case "typeIs":
		if len(x.Args) != 2 {
			return EV{}, fmt.Errorf("typeIs(x, T)")
		}
		v, err := env.eval(x.Args[0])
		if err != nil {
			return EV{}, err
		}
		iv, ok := v.V.(IfaceV)
		if !ok {
			return EV{}, fmt.Errorf("typeIs needs an interface value")
		}
		t, err := env.typeArg(x.Args[1])
		if err != nil {
			return EV{}, err
		}
		return EV{V: Eq(iv.Tag, IntT(int64(ex.ctx.typeID(t))))}, nil
	case "embedded":
		// embedded(x, T): the T embedded in (or equal to) the dynamic value of interface x
		v, err := env.eval(x.Args[0])
		if err != nil {
			return EV{}, err
		}
		iv, ok := v.V.(IfaceV)
		if !ok {
			return EV{}, fmt.Errorf("embedded needs an interface value")
		}
		t, err := env.typeArg(x.Args[1])
		if err != nil {
			return EV{}, err
		}
		return EV{V: StructRefV{ex.embeddedRef(t, iv)}, T: t}, nil
	case "as":
		// as(x, T): the payload of interface value x viewed as T
		v, err := env.eval(x.Args[0])
		if err != nil {
			return EV{}, err
		}
		iv, ok := v.V.(IfaceV)
		if !ok {
			return EV{}, fmt.Errorf("as needs an interface value")
		}
		t, err := env.typeArg(x.Args[1])
		if err != nil {
			return EV{}, err
		}
		switch kindOf(t) {
		case KStruct:
			return EV{V: StructRefV{iv.Ref}, T: t}, nil
		case KRef:
			return EV{V: iv.Ref, T: t}, nil
		}
		return EV{V: ex.loadLoc(env.st, Loc{Kind: LHeap1, Heap: "box." + typeKey(t), Ref: iv.Ref, Typ: t}), T: t}, nil
	}
	args, err := env.args(x.Args)
	if err != nil {
		return EV{}, err
	}
	switch id.Name {
	case "len":
		switch p := args[0].V.(type) {
		case SliceV:
			return EV{V: p.Len, T: types.Typ[types.Int]}, nil
		case Term:
			if p.Sort == SBytes {
				if p.S == "bempty" {
					return EV{V: IntT(0)}, nil
				}
				return EV{V: App(SInt, "blen", p), T: types.Typ[types.Int]}, nil
			}
			if p.Sort == SLog {
				return EV{V: App(SInt, "llen", p)}, nil
			}
			if args[0].T != nil {
				if _, ok := args[0].T.Underlying().(*types.Map); ok {
					mi := mapInfoOf(args[0].T)
					return EV{V: Select(ex.heap(env.st, mi.key+"#len", ArrSort(SInt)), p)}, nil
				}
			}
		}
		return EV{}, fmt.Errorf("len of %T", args[0].V)
	case "cap":
		if p, ok := args[0].V.(SliceV); ok {
			return EV{V: p.Cap}, nil
		}
	case "content":
		if p, ok := args[0].V.(SliceV); ok {
			return EV{V: ex.content(env.st, p), T: types.Typ[types.String]}, nil
		}
		if p, ok := args[0].V.(Term); ok && p.Sort == SBytes {
			return args[0], nil
		}
		return EV{}, fmt.Errorf("content of %T", args[0].V)
	case "arr":
		if p, ok := args[0].V.(SliceV); ok {
			return EV{V: p.Arr}, nil
		}
	case "rawarr":
		// the backing array (as an SMT array) of a slice of scalars, in the current state
		if p, ok := args[0].V.(SliceV); ok && args[0].T != nil {
			et := args[0].T.Underlying().(*types.Slice).Elem()
			cs := leafComps(et)
			if len(cs) == 1 {
				return EV{V: Select(ex.heap(env.st, "[]"+typeKey(et), Arr2Sort(cs[0].Sort)), p.Arr)}, nil
			}
		}
		return EV{}, fmt.Errorf("rawarr needs a slice of scalars")
	case "has":
		if m, ok := args[0].V.(Term); ok && args[0].T != nil {
			mi := mapInfoOf(args[0].T)
			k, _ := args[1].V.(Term)
			return EV{V: Select(Select(ex.mapDom(env.st, mi), m), k)}, nil
		}
		return EV{}, fmt.Errorf("has(map, key)")
	case "dom":
		if m, ok := args[0].V.(Term); ok && args[0].T != nil {
			mi := mapInfoOf(args[0].T)
			return EV{V: Select(ex.mapDom(env.st, mi), m)}, nil
		}
	case "fresh":
		// allocated during this call: above the watermark of the entry state
		var r Term
		switch p := args[0].V.(type) {
		case Term:
			r = p
		case SliceV:
			r = p.Arr
		case IfaceV:
			r = p.Ref
		default:
			return EV{}, fmt.Errorf("fresh of %T", args[0].V)
		}
		top := env.st.Top
		if env.old != nil {
			top = env.old.Top
		}
		return EV{V: Gt(r, top)}, nil
	case "sent", "recvd", "closed", "chancap", "drained":
		ch, ok := args[0].V.(Term)
		if !ok || args[0].T == nil {
			return EV{}, fmt.Errorf("%s needs a typed channel (use sentAt(\"elemtype\", ch) for raw references)", id.Name)
		}
		ct, ok := args[0].T.Underlying().(*types.Chan)
		if !ok {
			return EV{}, fmt.Errorf("%s needs a channel", id.Name)
		}
		sort := SLog
		if id.Name == "closed" || id.Name == "drained" {
			sort = SBool
		}
		name := id.Name
		if name == "chancap" {
			name, sort = "cap", SInt
		}
		return EV{V: Select(ex.heap(env.st, chanHeap(ct.Elem(), name), ArrSort(sort)), ch)}, nil
	case "mkiface":
		tg, ok1 := args[0].V.(Term)
		rf, ok2 := args[1].V.(Term)
		if !ok1 || !ok2 {
			return EV{}, fmt.Errorf("mkiface(tag, ref)")
		}
		return EV{V: IfaceV{tg, rf}}, nil
	case "allocated":
		// allocated(r): r is nil or (inside) an object that exists in this state (so that a callee which
		// only writes objects it allocates itself cannot have touched it)
		if len(args) == 1 {
			var r Term
			switch p := args[0].V.(type) {
			case Term:
				r = p
			case IfaceV:
				r = p.Ref
			case StructRefV:
				r = p.Ref
			default:
				return EV{}, fmt.Errorf("allocated(ref)")
			}
			return EV{V: Le(App(SInt, "root", r), env.st.Top)}, nil
		}
		return EV{}, fmt.Errorf("allocated(ref)")
	case "f64lit":
		// f64lit("3/2"): a float constant, written as go/constant prints it exactly
		if len(x.Args) == 1 {
			if lit, ok := x.Args[0].(*EStr); ok {
				return EV{V: ex.D.Const("f64lit:"+lit.V, SF64)}, nil
			}
		}
		return EV{}, fmt.Errorf("f64lit(\"exact value\")")
	case "feq":
		// feq(a, b): Go's == on floats (IEEE: -0 equals 0, NaN equals nothing); the contract's own == is identity
		if len(args) == 2 {
			a, ok1 := args[0].V.(Term)
			b, ok2 := args[1].V.(Term)
			if ok1 && ok2 && a.Sort == SF64 && b.Sort == SF64 {
				return EV{V: App(SBool, "feq", a, b)}, nil
			}
		}
		return EV{}, fmt.Errorf("feq(a, b) on floats")
	case "mul64":
		// mul64(a, b): a*b as a 64-bit signed machine multiplication (wraps on overflow)
		if len(args) == 2 {
			a, ok1 := args[0].V.(Term)
			b, ok2 := args[1].V.(Term)
			if ok1 && ok2 {
				return EV{V: wrapMul64(a, b)}, nil
			}
		}
		return EV{}, fmt.Errorf("mul64(a, b)")
	case "sprintf":
		// sprintf("format", args...): the text fmt.Sprintf produces (same term the engine uses)
		if f, ok := x.Args[0].(*EStr); ok {
			var ts []Term
			for _, a := range args[1:] {
				switch p := env.materialize(a).(type) {
				case Term:
					ts = append(ts, p)
				case SliceV:
					ts = append(ts, ex.content(env.st, p))
				default:
					return EV{}, fmt.Errorf("sprintf: unsupported argument")
				}
			}
			if t, ok := ex.sprintfTerm(f.V, ts); ok {
				return EV{V: t}, nil
			}
		}
		return EV{}, fmt.Errorf("sprintf(\"format\", args...): unsupported format or argument sorts")
	case "argsOf":
		vals := make([]Val, len(args))
		ts := make([]types.Type, len(args))
		for i, a := range args {
			vals[i] = env.materialize(a)
			ts[i] = a.T
		}
		return EV{V: ex.argsElem(env.st, vals, ts)}, nil
	case "elemOf":
		return EV{V: ex.valToElem(env.st, env.materialize(args[0]), args[0].T)}, nil
	case "isnil":
		e, err := env.equal(args[0], EV{V: IntT(0)})
		return EV{V: e}, err
	case "ite":
		c := args[0].V.(Term)
		return EV{V: ex.iteVal(c, env.materialize(args[1]), env.materialize(args[2]), args[1].T), T: args[1].T}, nil
	}
	if md, ok := ex.ctx.specs.Macros[id.Name]; ok {
		return env.macro(md, args)
	}
	if sort, ok := ex.ctx.specs.SMTFuns[id.Name]; ok {
		ts := make([]Term, len(args))
		for i, a := range args {
			switch p := env.materialize(a).(type) {
			case Term:
				ts[i] = p
			case SliceV:
				if a.T != nil && isByteSlice(a.T) {
					ts[i] = ex.content(env.st, p)
				} else {
					return EV{}, fmt.Errorf("argument %d of %s is a non-byte slice", i, id.Name)
				}
			case IfaceV:
				ts[i] = p.Ref
			default:
				return EV{}, fmt.Errorf("argument %d of %s has kind %T", i, id.Name, p)
			}
		}
		var t types.Type
		if sort == SBytes {
			t = types.Typ[types.String]
		}
		return EV{V: App(sort, id.Name, ts...), T: t}, nil
	}
	return EV{}, &bindErr{fmt.Sprintf("unknown function %s", id.Name)}
}

func (env *Env) typeArg(e Expr) (types.Type, error) {
	ptr := false
	if u, ok := e.(*EUnary); ok && u.Op == "*" {
		ptr = true
		e = u.X
	}
	if id, ok := e.(*EIdent); ok {
		if o := types.Universe.Lookup(id.Name); o != nil {
			if tn, ok := o.(*types.TypeName); ok {
				if ptr {
					return types.NewPointer(tn.Type()), nil
				}
				return tn.Type(), nil
			}
		}
	}
	v, err := env.eval(e)
	if err != nil {
		return nil, err
	}
	tr, ok := v.V.(typeRef)
	if !ok {
		return nil, fmt.Errorf("type name expected")
	}
	if ptr {
		return types.NewPointer(tr.t), nil
	}
	return tr.t, nil
}

func (env *Env) methodKeyOf(recv EV, method string) (string, Term, error) {
	n := namedOf(recv.T)
	if n == nil {
		return "", Term{}, fmt.Errorf("receiver of calls() has no named type")
	}
	var ref Term
	switch p := recv.V.(type) {
	case IfaceV:
		ref = p.Ref
	case Term:
		ref = p
	case StructRefV:
		ref = p.Ref
	default:
		return "", Term{}, fmt.Errorf("receiver of calls() is %T", recv.V)
	}
	pkg := ""
	if n.Obj().Pkg() != nil {
		pkg = n.Obj().Pkg().Name() + "."
	}
	return pkg + n.Obj().Name() + "." + method, ref, nil
}

func (env *Env) args(es []Expr) ([]EV, error) {
	out := make([]EV, len(es))
	for i, e := range es {
		v, err := env.eval(e)
		if err != nil {
			return nil, err
		}
		out[i] = v
	}
	return out, nil
}

func (env *Env) mustArgs(es []Expr) []EV {
	out, err := env.args(es)
	if err != nil {
		return []EV{{V: Term{"error:" + err.Error(), SBool}}}
	}
	return out
}

func (env *Env) macro(md *MacroDef, args []EV) (EV, error) {
	if len(args) != len(md.Params) {
		return EV{}, fmt.Errorf("%s expects %d arguments, got %d", md.Name, len(md.Params), len(args))
	}
	n := *env
	n.vars = map[string]EV{}
	n.bound = map[string]EV{}
	n.frame = nil
	n.loop = nil
	n.depth = env.depth + 1
	if p, ok := env.ex.ctx.byName[md.Pkg]; ok {
		n.pkg = p
	}
	for i, p := range md.Params {
		a := args[i]
		if a.T == nil && strings.HasPrefix(p.Type, "*") {
			// an untyped reference (e.g. taken out of a ghost log) gets the declared pointer type
			if _, isTerm := a.V.(Term); isTerm {
				if te, perr := ParseExpr(p.Type); perr == nil {
					if t, terr := n.typeArg(te); terr == nil {
						a.T = t
					}
				}
			}
		}
		n.bound[p.Name] = a
	}
	return n.eval(md.Body)
}

// embeddedRef: reference of the struct of type t embedded in the dynamic value of an interface
// (one uninterpreted function per t, defined by an axiom per concrete repo type that is t, *t,
// or a struct (pointer) with an embedded field of type t).
func (ex *Exec) embeddedRef(t types.Type, iv IfaceV) Term {
	fn := "emb:" + typeKey(t)
	sym := smtSym(fn)
	if !ex.D.seen[sym] {
		ex.D.Fun(fn, []string{SInt, SInt}, SInt)
		for _, ct := range ex.ctx.allTypes {
			st := structOf(ct)
			if st == nil {
				continue
			}
			for _, dyn := range []types.Type{ct, types.NewPointer(ct)} {
				tag := ex.ctx.typeID(dyn)
				if types.Identical(ct, t) {
					ex.D.lines = append(ex.D.lines, declLine{sym, fmt.Sprintf("(assert (forall ((r Int)) (! (= (%s %d r) r) :pattern ((%s %d r)))))", sym, tag, sym, tag)})
					continue
				}
				for i := 0; i < st.NumFields(); i++ {
					f := st.Field(i)
					if f.Embedded() && types.Identical(f.Type(), t) {
						sub := ex.subRef(typeKey(ct)+"."+f.Name(), Term{"r", SInt})
						ex.D.lines = append(ex.D.lines, declLine{sym, fmt.Sprintf("(assert (forall ((r Int)) (! (= (%s %d r) %s) :pattern ((%s %d r)))))", sym, tag, sub.S, sym, tag)})
					}
				}
			}
		}
	}
	return App(SInt, sym, iv.Tag, iv.Ref)
}
