package main

import (
	"fmt"
	"go/types"
	"strings"

	"golang.org/x/tools/go/ssa"
)

// loopSpec returns the invariants attached to a loop of the function under verification
// (loops of inlined callees have none: they are cut with the invariant "true").
func (ex *Exec) loopSpec(fr *Frame, lp *Loop) *LoopSpec {
	if fr.Fn != ex.fn || ex.contract == nil {
		return nil
	}
	return ex.contract.Loops[lp.Ordinal]
}

// cellsStoredIn lists the local cells (of the frame, or reached through closure bindings)
// assigned somewhere in the loop.
func (ex *Exec) cellsStoredIn(st *State, fr *Frame, lp *Loop) []Loc {
	var out []Loc
	seen := map[string]bool{}
	add := func(l Loc) {
		k := fmt.Sprintf("%d/%p", l.Frame, l.Alloc)
		if !seen[k] {
			seen[k] = true
			out = append(out, l)
		}
	}
	var scanFn func(fn *ssa.Function, bind []Val, depth int)
	scanFn = func(fn *ssa.Function, bind []Val, depth int) {
		if depth > 3 {
			return
		}
		for _, b := range fn.Blocks {
			for _, in := range b.Instrs {
				switch x := in.(type) {
				case *ssa.Store:
					if fv, ok := x.Addr.(*ssa.FreeVar); ok {
						for i, f := range fn.FreeVars {
							if f == fv && i < len(bind) {
								if a, ok := bind[i].(AddrV); ok && a.L.Kind == LCell {
									add(a.L)
								}
							}
						}
					}
				case *ssa.MakeClosure:
					// nested closure: bindings that are our free vars
					var nb []Val
					for _, bv := range x.Bindings {
						if fv, ok := bv.(*ssa.FreeVar); ok {
							found := false
							for i, f := range fn.FreeVars {
								if f == fv && i < len(bind) {
									nb = append(nb, bind[i])
									found = true
								}
							}
							if !found {
								nb = append(nb, nil)
							}
						} else {
							nb = append(nb, nil)
						}
					}
					scanFn(x.Fn.(*ssa.Function), nb, depth+1)
				}
			}
		}
	}
	for b := range lp.Blocks {
		for _, in := range b.Instrs {
			switch x := in.(type) {
			case *ssa.Store:
				switch a := x.Addr.(type) {
				case *ssa.FieldAddr:
					// store into a field of a struct local kept as a value: the whole local is assigned
					var base ssa.Value = a
					for {
						fa, ok := base.(*ssa.FieldAddr)
						if !ok {
							break
						}
						base = fa.X
					}
					if al, ok := base.(*ssa.Alloc); ok {
						if _, isCell := fr.Regs[al].(AddrV); isCell {
							add(Loc{Kind: LCell, Frame: fr.ID, Alloc: al, Typ: deref(al.Type())})
						}
					}
				case *ssa.Alloc:
					if _, isCell := fr.Regs[a].(AddrV); isCell || fr.Regs[a] == nil {
						add(Loc{Kind: LCell, Frame: fr.ID, Alloc: a, Typ: deref(a.Type())})
					}
				case *ssa.FreeVar:
					for i, f := range fr.Fn.FreeVars {
						if f == a && i < len(fr.Free) {
							if av, ok := fr.Free[i].(AddrV); ok && av.L.Kind == LCell {
								add(av.L)
							}
						}
					}
				}
			case *ssa.MakeClosure:
				var nb []Val
				for _, bv := range x.Bindings {
					switch a := bv.(type) {
					case *ssa.Alloc:
						nb = append(nb, AddrV{Loc{Kind: LCell, Frame: fr.ID, Alloc: a, Typ: deref(a.Type())}})
					case *ssa.FreeVar:
						var v Val
						for i, f := range fr.Fn.FreeVars {
							if f == a && i < len(fr.Free) {
								v = fr.Free[i]
							}
						}
						nb = append(nb, v)
					default:
						nb = append(nb, nil)
					}
				}
				scanFn(x.Fn.(*ssa.Function), nb, 0)
			}
		}
	}
	return out
}

func (ex *Exec) itersIn(lp *Loop) []*ssa.Range {
	var out []*ssa.Range
	for b := range lp.Blocks {
		for _, in := range b.Instrs {
			if n, ok := in.(*ssa.Next); ok {
				if r, ok := n.Iter.(*ssa.Range); ok {
					out = append(out, r)
				}
			}
		}
	}
	return out
}

func (ex *Exec) havocCells(st *State, fr *Frame, lp *Loop) {
	for _, l := range ex.cellsStoredIn(st, fr, lp) {
		name := "loop"
		if l.Alloc != nil && l.Alloc.Comment != "" {
			name = "loop." + l.Alloc.Comment
		}
		if kindOf(l.Typ) == KArray {
			continue // array locals live on the heap
		}
		if kindOf(l.Typ) == KStruct {
			if _, isCell := st.Frames[l.Frame].Regs[l.Alloc].(AddrV); !isCell {
				continue // escaping struct locals live on the heap
			}
		}
		ex.storeLoc(st, l, ex.symbolic(st, name, l.Typ))
	}
	for _, r := range ex.itersIn(lp) {
		f := st.Frames[fr.ID]
		if it, ok := f.Regs[r].(IterV); ok && !it.Str {
			mi := mapInfoOf(it.T)
			f.Regs[r] = IterV{Map: it.Map, Visited: ex.D.Fresh("visited", mapArr(mi.ks, SBool)), T: it.T}
		}
	}
}

func (ex *Exec) loopName(fr *Frame, lp *Loop) string {
	return fmt.Sprintf("loop%d", lp.Ordinal)
}

func (ex *Exec) loopEnter(st *State, frID int, lp *Loop, from *ssa.BasicBlock, k Cont) {
	fr := st.Frames[frID]
	spec := ex.loopSpec(fr, lp)
	// entry(e) in an invariant: e is evaluated now, in the state that reaches the loop, and carried
	// in the state under a name (so that joins rename it like any other live value)
	if spec != nil {
		for _, c := range spec.Invs {
			walkExpr(c.E, func(n Expr) {
				call, ok := n.(*ECall)
				if !ok || len(call.Args) != 1 {
					return
				}
				if id, ok := call.Fn.(*EIdent); !ok || id.Name != "entry" {
					return
				}
				env := ex.loopEnv(st, fr, lp)
				v, err := env.eval(call.Args[0])
				if err != nil {
					ex.bindingError(c, err)
					return
				}
				t, ok := v.V.(Term)
				if !ok {
					ex.bindingError(c, fmt.Errorf("entry(): only scalar expressions are supported"))
					return
				}
				if st.Aux == nil {
					st.Aux = map[string]Term{}
				}
				st.Aux[entryKey(lp, call)] = t
				if ex.auxTypes == nil {
					ex.auxTypes = map[string]types.Type{}
				}
				ex.auxTypes[entryKey(lp, call)] = v.T
			})
		}
	}
	// 1. invariants hold on entry
	if spec != nil && ex.disc == nil {
		for _, c := range spec.Invs {
			env := ex.loopEnv(st, fr, lp)
			g, err := env.evalBool(c.E)
			if err != nil {
				ex.bindingError(c, err)
				continue
			}
			ex.obligeClause(st, "invariant-init", fmt.Sprintf("%s:%s", ex.loopName(fr, lp), c.Label), c, g)
		}
	}
	// 2. find out what the loop writes (exploring its body once), then havoc exactly that
	writes, globals, allocated := ex.discover(st, frID, lp)
	headTop := st.Top
	if allocated {
		nt := ex.D.Fresh("top", SInt)
		st.Assume(Ge(nt, st.Top))
		st.Top = nt
	}
	ex.havocCells(st, fr, lp)
	ex.applyHavocAt(st, writes, headTop)
	for g := range globals {
		st.Globals[g] = ex.symbolic(st, "G."+g.Name(), deref(g.Type()))
	}
	// built-in invariant of range-over-slice loops: the hidden index starts at -1 and only grows
	for _, in := range lp.Header.Instrs {
		if u, ok := in.(*ssa.UnOp); ok {
			if a, ok := u.X.(*ssa.Alloc); ok && a.Comment == "rangeindex" {
				if cur, ok := st.Frames[frID].Cells[a].(Term); ok {
					st.Assume(Ge(cur, IntT(-1)))
				}
			}
		}
	}
	if spec != nil {
		for _, c := range spec.Assumed {
			env := ex.loopEnv(st, fr, lp)
			g, err := env.evalBool(c.E)
			if err != nil {
				ex.bindingError(c, err)
				continue
			}
			st.Assume(g)
			ex.assumed[fmt.Sprintf("assumed (unproved) loop invariant in %s loop %d [%s]: %s", funcKey(ex.fn), lp.Ordinal, c.Label, c.Src)] = true
		}
	}
	// 3. assume the invariants
	if spec != nil {
		for _, c := range spec.Invs {
			env := ex.loopEnv(st, fr, lp)
			g, err := env.evalBool(c.E)
			if err != nil {
				ex.bindingError(c, err)
				continue
			}
			st.Assume(g)
		}
	}
	if spec != nil {
		ex.canary(st, ex.loopName(fr, lp))
	}
	if ex.disc == nil && fr.Fn == ex.fn {
		if ex.iterStart == nil {
			ex.iterStart = map[*ssa.BasicBlock]*State{}
		}
		ex.iterStart[lp.Header] = st.Clone()
	}
	ex.run(st, frID, lp.Header, 0, from, k)
}

func (ex *Exec) loopBackEdge(st *State, frID int, lp *Loop) {
	if ex.disc != nil {
		return
	}
	fr := st.Frames[frID]
	ex.checkBranches(st, fr, lp)
	spec := ex.loopSpec(fr, lp)
	if spec == nil {
		return
	}
	for _, c := range spec.Invs {
		env := ex.loopEnv(st, fr, lp)
		g, err := env.evalBool(c.E)
		if err != nil {
			ex.bindingError(c, err)
			continue
		}
		ex.obligeClause(st, "invariant-preserved", fmt.Sprintf("%s:%s", ex.loopName(fr, lp), c.Label), c, g)
	}
}

// discover explores the loop body once from a state in which all loop-assigned cells are
// unknown, and reports every heap location written on any path.
func (ex *Exec) discover(st *State, frID int, lp *Loop) ([]writeRec, map[*ssa.Global]bool, bool) {
	if ex.disc != nil && ex.disc.depth > 4 {
		ex.unsupported("loop nesting too deep")
		return nil, nil, false
	}
	saved := ex.disc
	savedPaths := ex.paths
	d := &discovery{watermark: ex.D.n, loop: lp, frameID: frID, globals: map[*ssa.Global]bool{}}
	if saved != nil {
		d.depth = saved.depth + 1
	}
	ds := st.Clone()
	ex.disc = d
	ex.havocCells(ds, ds.Frames[frID], lp)
	ex.run(ds, frID, lp.Header, 0, nil, func(*State, []Val) {})
	ex.disc = saved
	ex.paths = savedPaths
	if saved != nil {
		// writes of an inner loop are writes of the outer loop as well
		for _, w := range d.writes {
			w.precise = w.precise && ex.headerValidAt(w.ref, saved.watermark)
			saved.writes = append(saved.writes, w)
		}
		for g := range d.globals {
			saved.globals[g] = true
		}
		saved.allocated = saved.allocated || d.allocated
	}
	return d.writes, d.globals, d.allocated
}

func (ex *Exec) headerValidAt(t Term, watermark int) bool {
	for _, m := range freshSymRe.FindAllStringSubmatch(t.S, -1) {
		var n int
		fmt.Sscanf(m[1], "%d", &n)
		if n > watermark {
			return false
		}
	}
	return true
}

// applyHavoc forgets the contents of the written locations.
func (ex *Exec) applyHavoc(st *State, writes []writeRec) { ex.applyHavocAt(st, writes, st.Top) }

// applyHavocAt: headTop is the watermark before the havocked code ran (objects at or below it
// existed already; the frame of "only fresh objects written" is stated relative to it).
func (ex *Exec) applyHavocAt(st *State, writes []writeRec, headTop Term) {
	type agg struct {
		all     bool
		unknown bool
		refs    map[string]Term
		bases   map[string]Term
		kind    LocKind
		sort    string
	}
	m := map[string]*agg{}
	var order []string
	for _, w := range writes {
		a := m[w.heap]
		if a == nil {
			a = &agg{refs: map[string]Term{}, bases: map[string]Term{}, kind: w.kind, sort: w.sort}
			m[w.heap] = a
			order = append(order, w.heap)
		}
		if !w.precise {
			a.all = true
			if !w.fresh {
				a.unknown = true
			}
		} else if w.kind == LBase {
			a.bases[w.ref.S] = w.ref
		} else {
			a.refs[w.ref.S] = w.ref
		}
	}
	for _, name := range order {
		a := m[name]
		if a.kind == LCell { // ghost value that is not an array (spawn logs)
			st.Heaps[name] = ex.freshHeapVal(st, name, "hv", a.sort)
			continue
		}
		cur := ex.heap(st, name, a.sort)
		if a.all {
			nh := ex.freshHeapVal(st, name, "hv:"+shortName(name), a.sort)
			if !a.unknown {
				// only objects allocated inside the loop (plus the precisely known ones) are written:
				// everything that existed at the loop head keeps its value
				conds := []string{fmt.Sprintf("(<= (root r) %s)", headTop.S)}
				for _, r := range a.refs {
					conds = append(conds, fmt.Sprintf("(not (= r %s))", r.S))
				}
				st.Assume(Term{fmt.Sprintf("(forall ((r Int)) (! (=> (and %s) (= (select %s r) (select %s r))) :pattern ((select %s r))))",
					strings.Join(conds, " "), nh.S, cur.S, nh.S), SBool})
			}
			st.Heaps[name] = nh
			continue
		}
		if len(a.bases) > 0 {
			// all elements of some backing arrays are written: everything whose base object is none of them (and that
			// is not one of the precisely known locations) keeps its value
			nh := ex.freshHeapVal(st, name, "hv:"+shortName(name), a.sort)
			var conds []string
			for _, b := range a.bases {
				conds = append(conds, fmt.Sprintf("(not (= (subbase r) %s))", b.S))
			}
			for _, r := range a.refs {
				conds = append(conds, fmt.Sprintf("(not (= r %s))", r.S))
			}
			st.Assume(Term{fmt.Sprintf("(forall ((r Int)) (! (=> (and %s) (= (select %s r) (select %s r))) :pattern ((select %s r))))",
				strings.Join(conds, " "), nh.S, cur.S, nh.S), SBool})
			st.Heaps[name] = nh
			continue
		}
		inner := strings.TrimSuffix(strings.TrimPrefix(a.sort, "(Array Int "), ")")
		for _, r := range a.refs {
			cur = Store(cur, r, ex.freshHeapVal(st, name, "hv", inner))
		}
		st.Heaps[name] = cur
	}
}

func shortName(s string) string {
	if len(s) > 30 {
		return s[:30]
	}
	return s
}

// loopEnv builds the evaluation environment for invariants of a loop: source-level locals
// are visible by name, #i is the number of completed iterations of a range loop over a
// slice and #s the slice ranged over.
func (ex *Exec) loopEnv(st *State, fr *Frame, lp *Loop) *Env {
	env := ex.baseEnv(st)
	if ex.fenv != nil && fr.Fn == ex.fn {
		for k, v := range ex.fenv.vars {
			env.vars[k] = v
		}
		env.bound = map[string]EV{}
		for k, v := range ex.fenv.bound {
			env.bound[k] = v
		}
	}
	env.frame = fr
	env.loop = lp
	return env
}

// checkBranches: "branch <text>: ensures E" clauses of an event loop. E is checked at the end of
// every iteration that took a select case (or statement) whose source line contains <text>;
// old(...) inside E refers to the state at the start of that iteration.
func (ex *Exec) checkBranches(st *State, fr *Frame, lp *Loop) {
	if ex.contract == nil || fr.Fn != ex.fn || len(ex.contract.Branches) == 0 {
		return
	}
	start := ex.iterStart[lp.Header]
	if start == nil {
		return
	}
	taken := st.Trace[len(start.Trace):]
	for label, clauses := range ex.contract.Branches {
		hit := false
		for _, t := range taken {
			if strings.HasPrefix(t, "case:") && strings.Contains(t, label) {
				hit = true
			}
		}
		if !hit {
			continue
		}
		for _, c := range clauses {
			env := ex.loopEnv(st, fr, lp)
			env.old = start
			env.oldMid = true
			g, err := env.evalBool(c.E)
			if err != nil {
				ex.bindingError(c, err)
				continue
			}
			ex.obligeClause(st, "branch", label+":"+c.Label, c, g)
		}
	}
}

func entryKey(lp *Loop, call *ECall) string {
	return fmt.Sprintf("entry%d.%s", lp.Ordinal, exprKey(call.Args[0]))
}
