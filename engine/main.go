package main

import (
	"encoding/json"
	"flag"
	"fmt"
	"os"
	"path/filepath"
	"sort"
	"strings"
	"time"

	"golang.org/x/tools/go/ssa"
)

var repoPkgs = []string{
	"./aggregator", "./badmetrics", "./cfg", "./clock", "./destination", "./imperatives", "./input",
	"./matcher", "./nsqd", "./persister", "./rewriter", "./route", "./table", "./validate", "./go-whisper",
	"./cmd/carbon-relay-ng", "./util", "./stats", "./encoding",
}

type Options struct {
	Repo, Specs, Verif string
	Prop               string
	Funcs              string
	Tier               string
	Timeout            int
	Verbose            bool
	Safety             bool
	Workers            int
	Dump               string
	Only               string
	GenLocals          bool
}

func main() {
	var o Options
	flag.StringVar(&o.Repo, "repo", "/repo", "repository working tree")
	flag.StringVar(&o.Verif, "verif", "/verif", "verification directory")
	flag.StringVar(&o.Prop, "prop", "", "property id")
	flag.StringVar(&o.Funcs, "func", "", "comma separated contract keys (development)")
	flag.StringVar(&o.Tier, "tier", "quick", "quick|thorough")
	flag.IntVar(&o.Timeout, "timeout", 0, "solver timeout per back end (s)")
	flag.BoolVar(&o.Verbose, "v", false, "verbose")
	flag.BoolVar(&o.Safety, "safety", false, "generate safety obligations")
	flag.IntVar(&o.Workers, "j", 16, "parallel solver processes")
	flag.StringVar(&o.Dump, "dump", "", "dump SSA of a function (contract key)")
	flag.StringVar(&o.Only, "only", "", "development: only solve obligations whose name contains this")
	flag.BoolVar(&o.GenLocals, "genlocals", false, "write specs/locals.json (the named locals of every function under contract)")
	flag.Parse()
	o.Specs = filepath.Join(o.Verif, "specs")
	if o.Timeout == 0 {
		o.Timeout = 10
		if o.Tier == "thorough" {
			o.Timeout = 60
		}
	}
	os.Exit(run(&o))
}

func existingPkgs(repo string) []string {
	var out []string
	for _, p := range repoPkgs {
		if st, err := os.Stat(filepath.Join(repo, p)); err == nil && st.IsDir() {
			out = append(out, p)
		}
	}
	return out
}

func run(o *Options) int {
	t0 := time.Now()
	ctx, err := Load(o.Repo, existingPkgs(o.Repo))
	if err != nil {
		fmt.Println("UNDECIDED reason=load-failed:", err)
		return 2
	}
	pkgDirs := map[string]string{}
	for _, p := range ctx.pkgs {
		rel := strings.TrimPrefix(p.Pkg.Path(), repoModule)
		pkgDirs[p.Pkg.Name()] = filepath.Join(o.Repo, rel)
	}
	sp, err := LoadSpecs(o.Specs, pkgDirs)
	if err != nil {
		fmt.Println("UNDECIDED reason=contract-parse:", err)
		return 2
	}
	ctx.specs = sp
	if o.Verbose {
		fmt.Printf("loaded %d packages, %d contracts in %.1fs\n", len(ctx.pkgs), len(sp.Funcs), time.Since(t0).Seconds())
	}
	localsFile := filepath.Join(o.Specs, "locals.json")
	if o.GenLocals {
		out := map[string][]localRef{}
		for k, fc := range sp.Funcs {
			if fc.Extern || fc.Iface {
				continue
			}
			if fn := ctx.findFunc(k); fn != nil && fn.Blocks != nil {
				_, ls := namedLocals(fn)
				out[k] = ls
			}
		}
		data, _ := json.MarshalIndent(out, "", " ")
		os.WriteFile(localsFile, data, 0o644)
		fmt.Printf("wrote %s (%d functions)\n", localsFile, len(out))
		return 0
	}
	if data, err := os.ReadFile(localsFile); err == nil {
		json.Unmarshal(data, &ctx.localsRef)
	}
	if o.Dump != "" {
		fn := ctx.findFunc(o.Dump)
		if fn == nil {
			fmt.Println("no such function", o.Dump)
			return 2
		}
		fn.WriteTo(os.Stdout)
		for h, l := range ctx.loopsOf(fn) {
			fmt.Printf("loop %d header block %d (%d blocks)\n", l.Ordinal, h.Index, len(l.Blocks))
		}
		return 0
	}
	if o.Prop != "" {
		return runProperty(ctx, o, t0)
	}
	// development mode: verify the named functions and print every obligation
	var keys []string
	if o.Funcs == "all" {
		for k, fc := range sp.Funcs {
			if !fc.Extern && !fc.Iface && !fc.Trusted {
				keys = append(keys, k)
			}
		}
		sort.Strings(keys)
	} else {
		keys = strings.Split(o.Funcs, ",")
	}
	tmp, _ := os.MkdirTemp("", "gcv")
	defer os.RemoveAll(tmp)
	solver := &Solver{Dir: tmp, Timeout: o.Timeout, All: false, noRetry: os.Getenv("GCV_RETRY") == ""}
	if os.Getenv("GCV_CACHE") != "" {
		solver.cacheDir = filepath.Join(o.Verif, ".cache", "smt")
	}
	if os.Getenv("GCV_KEEP") != "" {
		solver.Dir = os.Getenv("GCV_KEEP")
		os.MkdirAll(solver.Dir, 0o755)
	}
	bad := 0
	var tasks []vtask
	for _, key := range keys {
		tasks = append(tasks, ctx.expandKey(key, sp.Funcs[key])...)
	}
	for _, t := range tasks {
		if t.skip != "" {
			fmt.Printf("%s: %s\n", t.key, t.skip)
			bad++
			continue
		}
		ex := VerifyFuncAs(ctx, t.fn, t.fc, o.Safety, true, t.nameAs)
		if o.Only != "" {
			var keep []*Obligation
			for _, ob := range ex.obls {
				if strings.Contains(ob.Name, o.Only) {
					keep = append(keep, ob)
				}
			}
			ex.obls = keep
		}
		solver.SolveAll(sp, ex.obls, o.Workers)
		bad += report(ex, o.Verbose)
	}
	fmt.Printf("total %.1fs\n", time.Since(t0).Seconds())
	if bad > 0 {
		return 1
	}
	return 0
}

type group struct {
	name string
	n    int
	fail []*Obligation
	secs float64
	back map[string]bool
}

func groupObls(obls []*Obligation) []*group {
	m := map[string]*group{}
	var order []string
	for _, ob := range obls {
		g := m[ob.Name]
		if g == nil {
			g = &group{name: ob.Name, back: map[string]bool{}}
			m[ob.Name] = g
			order = append(order, ob.Name)
		}
		g.n++
		if ob.Result != nil {
			g.secs += ob.Result.Secs
			g.back[ob.Result.Backend] = true
			if ob.Result.Status != "unsat" {
				g.fail = append(g.fail, ob)
			}
		}
	}
	var out []*group
	for _, n := range order {
		out = append(out, m[n])
	}
	return out
}

func report(ex *Exec, verbose bool) int {
	bad := 0
	fmt.Printf("== %s: %d paths, %d returns, %d obligation instances\n", ex.oblName(), ex.paths, ex.retCount, len(ex.obls))
	for _, e := range ex.errs {
		fmt.Println("   UNSUPPORTED/BINDING:", e)
		bad++
	}
	nerr := 0
	for _, ob := range ex.obls {
		if ob.Result != nil && strings.Contains(strings.Join(ob.Result.Tried, " "), ":error:") {
			nerr++
			if verbose {
				fmt.Printf("   REJECTED %s %v %s\n", ob.Name, ob.Result.Tried, ob.Result.Output)
			}
		}
	}
	if nerr > 0 {
		fmt.Printf("   WARNING  %d queries were rejected by a back end (syntax/sort error in the generated SMT text)\n", nerr)
	}
	for _, g := range groupObls(ex.obls) {
		status := "ok"
		if strings.Contains(g.name, "#canary:") {
			if len(g.fail) == 0 {
				fmt.Printf("   VACUOUS  %s: assumptions are contradictory (assert false was proved)\n", g.name)
				bad++
			}
			continue
		}
		if len(g.fail) > 0 {
			status = "FAILED(" + g.fail[0].Result.Status + ")"
			bad++
		}
		var bs []string
		for b := range g.back {
			bs = append(bs, b)
		}
		sort.Strings(bs)
		if verbose || len(g.fail) > 0 {
			fmt.Printf("   %-8s %s  x%d  %.2fs %v\n", status, g.name, g.n, g.secs, bs)
		}
		if len(g.fail) > 0 {
			f := g.fail[0]
			fmt.Printf("      at %s: %s\n      tried %v %s\n", f.Where, f.Src, f.Result.Tried, f.Result.Output)
			if verbose && f.Result.Model != "" {
				fmt.Println(indent(firstN(f.Result.Model, 60), "      | "))
			}
		}
	}
	return bad
}

func firstN(s string, n int) string {
	ls := strings.Split(s, "\n")
	if len(ls) > n {
		ls = append(ls[:n], "...")
	}
	return strings.Join(ls, "\n")
}

func indent(s, p string) string { return p + strings.ReplaceAll(s, "\n", "\n"+p) }

var _ = ssa.NaiveForm
