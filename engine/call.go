package main

import (
	"fmt"
	"go/constant"
	"go/types"
	"strings"

	"golang.org/x/tools/go/ssa"
)

const maxInlineDepth = 6

func (ex *Exec) call(st *State, frID int, instr ssa.Instruction, cc *ssa.CallCommon, k Cont) {
	fr := st.Frames[frID]
	if !cc.IsInvoke() {
		if f, ok := cc.Value.(*ssa.Function); ok && (ex.isErased(fullName(f)) || ex.isErased(funcKey(f))) {
			ex.callFunc(st, frID, instr, f, nil, nil, cc, k)
			return
		}
	} else if ex.isErased(methodKey(cc.Method)) {
		k(st, ex.freshResults(st, cc.Signature().Results(), "erased"))
		return
	}
	fnVal := ex.val(st, fr, cc.Value)
	args := make([]Val, len(cc.Args))
	for i, a := range cc.Args {
		args[i] = ex.val(st, fr, a)
	}
	ex.callResolved(st, frID, instr, cc, fnVal, args, k)
}

func (ex *Exec) callResolved(st *State, frID int, instr ssa.Instruction, cc *ssa.CallCommon, fnVal Val, args []Val, k Cont) {
	if cc.IsInvoke() {
		ex.invoke(st, frID, instr, cc, fnVal, args, k)
		return
	}
	switch f := fnVal.(type) {
	case *ssa.Builtin:
		if f.Name() == "append" && len(args) == 2 {
			// two paths: the capacity suffices (write into the shared array) or not (fresh array)
			st2 := st.Clone()
			ex.appendMode = 1
			v1 := ex.appendOp(st, instr, cc, args)
			ex.appendMode = 2
			v2 := ex.appendOp(st2, instr, cc, args)
			ex.appendMode = 0
			if !ex.lastAppendTrivial {
				k(st2, []Val{v2})
			}
			k(st, []Val{v1})
			return
		}
		k(st, ex.builtin(st, frID, instr, f, cc, args))
	case *ClosureV:
		ex.callFunc(st, frID, instr, f.Fn, f.Bind, args, cc, k)
	default:
		// a function value loaded from a struct field may have a contract attached to the field
		// (pkg.Type.field): every function stored there is obliged to satisfy it
		if u, ok := cc.Value.(*ssa.UnOp); ok {
			if fa, ok := u.X.(*ssa.FieldAddr); ok {
				if n := namedOf(fa.X.Type()); n != nil {
					fk := typeKey(n) + "." + structOf(deref(fa.X.Type())).Field(fa.Field).Name()
					if fc := ex.ctx.specs.Funcs[fk]; fc != nil {
						recv := ex.val(st, st.Frames[frID], fa.X)
						ex.externs[fk+" (contract on a function-typed field)"] = true
						sig := cc.Signature()
						ex.applyContract(st, frID, instr, fc, sig, append([]Val{recv}, args...), k)
						return
					}
				}
			}
		}
		// a value of a named function type may have a contract attached to the type (pkg.TypeName):
		// every function passed as such a value is obliged to satisfy it
		if n := namedOf(cc.Value.Type()); n != nil {
			if _, isSig := n.Underlying().(*types.Signature); isSig {
				if fc := ex.ctx.specs.Funcs[typeKey(n)]; fc != nil {
					ex.externs[typeKey(n)+" (contract on a named function type)"] = true
					ex.applyContract(st, frID, instr, fc, cc.Signature(), args, k)
					return
				}
			}
		}
		// unknown function value: assumed pure with an unconstrained result
		ex.assumed["call through unknown function value in "+ex.fn.Name()+" assumed pure"] = true
		k(st, ex.freshResults(st, cc.Signature().Results(), "dyncall"))
	}
}

func (ex *Exec) freshResults(st *State, res *types.Tuple, base string) []Val {
	out := make([]Val, res.Len())
	for i := range out {
		out[i] = ex.symbolic(st, base, res.At(i).Type())
	}
	return out
}

func (ex *Exec) isErased(name string) bool {
	for _, p := range ex.ctx.specs.Erase {
		if matchPattern(p, name) {
			return true
		}
	}
	return false
}

func fullName(fn *ssa.Function) string {
	s := fn.String()
	return s
}

// callFunc handles a call whose target function is known.
func (ex *Exec) callFunc(st *State, frID int, instr ssa.Instruction, fn *ssa.Function, bind []Val, args []Val, cc *ssa.CallCommon, k Cont) {
	name := fullName(fn)
	key := funcKey(fn)
	if ex.isErased(name) || ex.isErased(key) {
		// erased calls have no contract-relevant effect; results (if any) are unconstrained,
		// except level checks which are taken as "disabled"
		res := fn.Signature.Results()
		if strings.HasPrefix(fn.Name(), "Fatal") {
			// log.Fatal*: the process exits here (deliberately); the path ends
			return
		}
		if res.Len() == 1 && kindOf(res.At(0).Type()) == KBool && strings.Contains(name, "IsLevelEnabled") {
			k(st, []Val{False})
			return
		}
		k(st, ex.freshResults(st, res, "erased"))
		return
	}
	if strings.HasPrefix(key, "atomic.") && len(args) >= 1 {
		if a, ok := args[0].(AddrV); ok {
			switch fn.Name() {
			case "LoadInt64", "LoadInt32", "LoadUint64", "LoadUint32":
				v := ex.loadLoc(st, a.L)
				ex.assumeTyped(st, v, a.L.Typ)
				k(st, []Val{v})
				return
			case "StoreInt64", "StoreInt32", "StoreUint64", "StoreUint32":
				ex.storeLoc(st, a.L, args[1])
				k(st, nil)
				return
			case "AddInt64", "AddInt32", "AddUint64", "AddUint32":
				nv := Add(ex.loadLoc(st, a.L).(Term), args[1].(Term))
				ex.storeLoc(st, a.L, nv)
				k(st, []Val{nv})
				return
			}
		}
	}
	if key == "binary.Read" && len(args) == 3 {
		// binary.Read(r, order, &x): x receives an unconstrained value of its type (what the
		// stream holds is not modelled); err == nil or x is left unspecified
		if iv, ok := args[2].(IfaceV); ok {
			if a, ok := ex.addrBoxes[iv.Ref.S]; ok {
				ex.externs["binary.Read (writes an unconstrained value through its pointer argument)"] = true
				ex.storeLoc(st, a.L, ex.symbolic(st, "binread", a.L.Typ))
				k(st, ex.freshResults(st, fn.Signature.Results(), "res:Read"))
				return
			}
		}
	}
	if key == "fmt.Sprintf" && cc != nil && len(cc.Args) == 2 {
		if t, ok := ex.sprintfConcat(st, frID, cc); ok {
			ex.externs["fmt.Sprintf (formats made of literal text and %s verbs over strings: the concatenation)"] = true
			k(st, []Val{t})
			return
		}
	}
	if key == "sort.Search" && len(args) == 2 {
		if c, ok := args[1].(*ClosureV); ok {
			k(st, []Val{ex.sortSearch(st, frID, args[0].(Term), c)})
			return
		}
	}
	if fn.Parent() != nil {
		// function literals are inlined at their call sites (their contracts, if any, are verified
		// on the literal itself and never used as a cut)
		if fn.Blocks != nil && ex.depth < maxInlineDepth {
			ex.inline(st, frID, instr, fn, bind, args, k)
			return
		}
	}
	if fc := ex.ctx.specs.Funcs[key]; fc != nil && !(fn == ex.fn && ex.depth == 0) {
		ex.applyContract(st, frID, instr, fc, fn.Signature, args, k)
		return
	} else if fc != nil && fn == ex.fn {
		// recursive call: use the contract
		ex.applyContract(st, frID, instr, fc, fn.Signature, args, k)
		return
	}
	for _, p := range ex.ctx.specs.Pure {
		if matchPattern(p, name) || matchPattern(p, key) {
			ex.externs[key+" (assumed pure, result unconstrained)"] = true
			k(st, ex.freshResults(st, fn.Signature.Results(), "ext"))
			return
		}
	}
	if fn.Blocks != nil && (isRepoFunc(fn) || fn.Synthetic != "" || fn.Parent() != nil) {
		if ex.depth >= maxInlineDepth {
			ex.unsupported("inline depth exceeded at %s", name)
			k(st, ex.freshResults(st, fn.Signature.Results(), "deep"))
			return
		}
		ex.inline(st, frID, instr, fn, bind, args, k)
		return
	}
	// library function without contract
	for _, p := range ex.ctx.specs.Pure {
		if matchPattern(p, name) || matchPattern(p, key) {
			ex.externs[key+" (assumed pure, result unconstrained)"] = true
			k(st, ex.freshResults(st, fn.Signature.Results(), "ext"))
			return
		}
	}
	ex.unsupported("call of %s: no contract and no body", key)
	k(st, ex.freshResults(st, fn.Signature.Results(), "ext"))
}

// inline executes the body of an uncontracted repo function in place.
func (ex *Exec) inline(st *State, frID int, instr ssa.Instruction, fn *ssa.Function, bind []Val, args []Val, k Cont) {
	ex.inlined[funcKey(fn)] = true
	fr := ex.newFrame(st, fn)
	fr.Free = bind
	for i, p := range fn.Params {
		if i < len(args) {
			fr.Regs[p] = args[i]
		}
	}
	ex.depth++
	d := ex.depth
	id := fr.ID
	ex.run(st, id, fn.Blocks[0], 0, nil, func(st2 *State, res []Val) {
		delete(st2.Frames, id)
		save := ex.depth
		ex.depth = d - 1
		k(st2, res)
		ex.depth = save
	})
	ex.depth = d - 1
}

// invoke handles a call through an interface.
func (ex *Exec) invoke(st *State, frID int, instr ssa.Instruction, cc *ssa.CallCommon, recv Val, args []Val, k Cont) {
	iv, ok := recv.(IfaceV)
	if !ok {
		iv = ex.coerce(recv, cc.Value.Type()).(IfaceV)
	}
	mkey := methodKey(cc.Method)
	if ex.isErased(mkey) {
		k(st, ex.freshResults(st, cc.Signature().Results(), "erased"))
		return
	}
	ex.safe(st, Neq(iv.Tag, IntT(0)), instr, "method call on nil interface")
	// a contract on the static interface type of the receiver (e.g. hash.Hash64.Write) is more
	// specific than the one on the interface that declares the method (io.Writer.Write)
	if n := namedOf(cc.Value.Type()); n != nil {
		sk := typeKey(n) + "." + cc.Method.Name()
		if _, ok := ex.ctx.specs.Funcs[sk]; ok {
			mkey = sk
		}
	}
	if fc := ex.ctx.specs.Funcs[mkey]; fc != nil {
		if fc.CallsArg && len(args) > 0 {
			if c, ok := args[len(args)-1].(*ClosureV); ok {
				ex.externs[fc.Key] = true
				ex.callFunc(st, frID, instr, c.Fn, c.Bind, nil, nil, func(st *State, _ []Val) {
					k(st, ex.freshResults(st, cc.Signature().Results(), "res"))
				})
				return
			}
		}
		ex.applyContract(st, frID, instr, fc, cc.Signature(), append([]Val{iv}, args...), k)
		return
	}
	// closed world: dispatch over the repo types implementing the interface
	it, _ := cc.Value.Type().Underlying().(*types.Interface)
	var impls []types.Type
	if it != nil {
		impls = ex.ctx.implementers(it)
	}
	if known, ok := st.Tags[iv.Tag.S]; ok {
		impls = []types.Type{known}
	} else if n, isNum := iv.Tag.numeral(); isNum {
		if t, ok := ex.ctx.typeOf[int(n.Int64())]; ok {
			impls = []types.Type{t}
		}
	}
	if len(impls) == 0 {
		for _, p := range ex.ctx.specs.Pure {
			if matchPattern(p, mkey) {
				ex.externs[mkey+" (assumed pure, result unconstrained)"] = true
				k(st, ex.freshResults(st, cc.Signature().Results(), "ext"))
				return
			}
		}
		ex.unsupported("interface call %s: no contract and no implementation in the loaded packages", mkey)
		k(st, ex.freshResults(st, cc.Signature().Results(), "ext"))
		return
	}
	var others []Term
	for _, t := range impls {
		sel := ex.ctx.prog.MethodSets.MethodSet(t).Lookup(cc.Method.Pkg(), cc.Method.Name())
		if sel == nil {
			continue
		}
		fn := ex.ctx.prog.MethodValue(sel)
		if fn == nil {
			continue
		}
		tagEq := Eq(iv.Tag, IntT(int64(ex.ctx.typeID(t))))
		others = append(others, Not(tagEq))
		if tagEq.IsFalse() {
			continue
		}
		st2 := st.Clone()
		st2.Assume(tagEq)
		st2.Tags[iv.Tag.S] = t
		var recvArg Val
		if kindOf(t) == KRef {
			recvArg = iv.Ref
		} else {
			recvArg = ex.unbox(st2, iv, t)
		}
		ex.callFunc(st2, frID, instr, fn, nil, append([]Val{recvArg}, args...), cc, k)
	}
	// a dynamic type outside the loaded program
	if _, isNum := iv.Tag.numeral(); !isNum {
		if _, known := st.Tags[iv.Tag.S]; !known {
			st3 := st.Clone()
			st3.Assume(And(others...))
			ex.assumed["dynamic types outside the loaded packages behind "+mkey+" assumed pure"] = true
			k(st3, ex.freshResults(st3, cc.Signature().Results(), "ext"))
		}
	}
}

// ---- builtins -----------------------------------------------------------------------------------

func (ex *Exec) builtin(st *State, frID int, instr ssa.Instruction, b *ssa.Builtin, cc *ssa.CallCommon, args []Val) []Val {
	switch b.Name() {
	case "len":
		switch x := args[0].(type) {
		case SliceV:
			return []Val{x.Len}
		case Term:
			switch kindOf(cc.Args[0].Type()) {
			case KString:
				if x.S == "bempty" {
					return []Val{IntT(0)}
				}
				return []Val{App(SInt, "blen", x)}
			case KRef: // map or chan
				if _, isMap := cc.Args[0].Type().Underlying().(*types.Map); isMap {
					mi := mapInfoOf(cc.Args[0].Type())
					l := Select(ex.heap(st, mi.key+"#len", ArrSort(SInt)), x)
					st.Assume(Ge(l, IntT(0)))
					return []Val{l}
				}
				r := ex.D.Fresh("chanlen", SInt)
				st.Assume(Ge(r, IntT(0)))
				return []Val{r}
			case KSlice:
				return []Val{IntT(0)}
			}
		}
	case "cap":
		if x, ok := args[0].(SliceV); ok {
			return []Val{x.Cap}
		}
		if _, ok := args[0].(Term); ok {
			if kindOf(cc.Args[0].Type()) == KSlice {
				return []Val{IntT(0)}
			}
			r := ex.D.Fresh("chancap", SInt)
			st.Assume(Ge(r, IntT(0)))
			return []Val{r}
		}
	case "append":
		return []Val{ex.appendOp(st, instr, cc, args)}
	case "copy":
		return []Val{ex.copyOp(st, instr, cc, args)}
	case "delete":
		m, _ := args[0].(Term)
		k, _ := args[1].(Term)
		ex.mapDelete(st, cc.Args[0].Type(), m, k)
		return nil
	case "close":
		ch, _ := args[0].(Term)
		ex.chanClose(st, ch, instr, cc.Args[0].Type().Underlying().(*types.Chan).Elem())
		return nil
	case "print", "println":
		return nil
	case "recover":
		return []Val{IfaceV{IntT(0), IntT(0)}}
	case "ssa:wrapnilchk":
		if p, ok := args[0].(Term); ok {
			ex.checkNonNil(st, p, instr, "nil pointer dereference (value method via nil pointer)")
		}
		return []Val{args[0]}
	case "ssa:deferstack":
		return []Val{IntT(0)}
	case "min", "max":
		x, y := args[0].(Term), args[1].(Term)
		if x.Sort == SInt {
			if b.Name() == "min" {
				return []Val{Ite(Le(x, y), x, y)}
			}
			return []Val{Ite(Ge(x, y), x, y)}
		}
	}
	ex.unsupported("builtin %s", b.Name())
	return ex.freshResults(st, cc.Signature().Results(), "builtin")
}

func isByteSlice(t types.Type) bool {
	sl, ok := t.Underlying().(*types.Slice)
	if !ok {
		return false
	}
	b, ok := sl.Elem().Underlying().(*types.Basic)
	return ok && b.Kind() == types.Uint8
}

// rangeUpdate returns a fresh array equal to old except that for lo <= j < hi it holds src(j).
func (ex *Exec) rangeUpdate(st *State, old Term, lo, hi Term, src func(j Term) Term) Term {
	if n, ok := Sub(hi, lo).numeral(); ok && n.IsInt64() && n.Int64() >= 0 && n.Int64() <= 4 {
		a := old
		for i := int64(0); i < n.Int64(); i++ {
			j := Add(lo, IntT(i))
			a = Store(a, j, src(j))
		}
		return a
	}
	a := ex.D.Fresh("upd", old.Sort)
	j := Term{"j", SInt}
	st.Assume(Term{fmt.Sprintf("(forall ((j Int)) (! (= (select %s j) (ite (and (<= %s j) (< j %s)) %s (select %s j))) :pattern ((select %s j))))",
		a.S, lo.S, hi.S, src(j).S, old.S, a.S), SBool})
	return a
}

func (ex *Exec) appendOp(st *State, instr ssa.Instruction, cc *ssa.CallCommon, args []Val) Val {
	st0 := cc.Args[0].Type()
	s := ex.coerce(args[0], st0).(SliceV)
	elem := st0.Underlying().(*types.Slice).Elem()
	var tlen Term
	var srcAt func(comp int, j Term, base Term) Term // element j (0-based in t) of component comp
	cs := []comp{}
	if kindOf(elem) != KStruct && kindOf(elem) != KArray {
		cs = leafComps(elem)
	}
	isStr := false
	var tv SliceV
	var tb Term
	if kindOf(cc.Args[1].Type()) == KString {
		isStr = true
		tb = args[1].(Term)
		tlen = App(SInt, "blen", tb)
	} else {
		tv = ex.coerce(args[1], cc.Args[1].Type()).(SliceV)
		tlen = tv.Len
	}
	n := Add(s.Len, tlen)
	ex.lastAppendTrivial = false
	if z, ok := tlen.numeral(); ok && z.Sign() == 0 {
		ex.lastAppendTrivial = true
		return s
	}
	// the engine does not fork here: it introduces one result slice whose shape depends on
	// whether the capacity suffices (in place, writing the shared array) or not (fresh array)
	inPlace := Le(n, s.Cap)
	switch ex.appendMode {
	case 1:
		st.Assume(inPlace)
		inPlace = True
	case 2:
		st.Assume(Not(inPlace))
		inPlace = False
	}
	fresh := ex.freshRef(st, "arr")
	resArr := Ite(inPlace, s.Arr, fresh)
	resOff := Ite(inPlace, s.Off, IntT(0))
	newCap := ex.D.Fresh("cap", SInt)
	st.Assume(Ge(newCap, n))
	resCap := Ite(inPlace, s.Cap, newCap)
	if kindOf(elem) == KStruct {
		ex.appendStructs(st, elem, s, tv, inPlace, fresh, tlen)
		return SliceV{resArr, resOff, n, resCap}
	}
	if kindOf(elem) == KArray {
		ex.unsupported("append on slice of arrays")
		return SliceV{resArr, resOff, n, resCap}
	}
	_ = srcAt
	for _, c := range cs {
		name := "[]" + typeKey(elem) + c.Suffix
		h := ex.heap(st, name, Arr2Sort(c.Sort))
		oldS := Select(h, s.Arr)
		var tsrc func(j Term) Term // j is an index relative to start of t
		if isStr {
			tsrc = func(j Term) Term { return App(SInt, "bat", tb, j) }
		} else {
			oldT := Select(h, tv.Arr)
			tsrc = func(j Term) Term { return Select(oldT, Ix(tv.Off, j)) }
		}
		// in place: positions off+len .. off+n of s.Arr get t
		lo := Add(s.Off, s.Len)
		inArr := ex.rangeUpdate(st, oldS, lo, Add(s.Off, n), func(j Term) Term { return tsrc(Sub(j, lo)) })
		// fresh: positions 0..len from s, len..n from t
		frArr := ex.D.Fresh("app", ArrSort(c.Sort))
		st.Assume(Term{fmt.Sprintf("(forall ((j Int)) (! (and (=> (and (<= 0 j) (< j %s)) (= (select %s j) (select %s %s))) (=> (and (<= %s j) (< j %s)) (= (select %s j) %s))) :pattern ((select %s j))))",
			s.Len.S, frArr.S, oldS.S, Ix(s.Off, Term{"j", SInt}).S, s.Len.S, n.S, frArr.S, tsrc(Sub(Term{"j", SInt}, s.Len)).S, frArr.S), SBool})
		if name == "[]uint8" {
			var tc Term
			if isStr {
				tc = tb
			} else {
				tc = App(SBytes, "bslice", Select(h, tv.Arr), tv.Off, tlen)
			}
			st.Assume(Eq(App(SBytes, "bslice", inArr, lo, tlen), tc))
			ex.assumeBytesFrame(st, inArr, oldS, lo, Add(s.Off, n))
			st.Assume(Eq(App(SBytes, "bslice", frArr, IntT(0), s.Len), App(SBytes, "bslice", oldS, s.Off, s.Len)))
			st.Assume(Eq(App(SBytes, "bslice", frArr, s.Len, tlen), tc))
		}
		h2 := Ite(inPlace, Store(h, s.Arr, inArr), Store(h, fresh, frArr))
		st.Heaps[name] = h2
		ex.recordWrite(name, LHeap2, s.Arr, Arr2Sort(c.Sort))
	}
	return SliceV{resArr, resOff, n, resCap}
}

// appendStructs models append on a slice of structs: per field, the element references of the
// result hold the old elements followed by the appended ones.
func (ex *Exec) appendStructs(st *State, elem types.Type, s, t SliceV, inPlace Term, fresh Term, tlen Term) {
	stt := structOf(elem)
	ek := typeKey(elem)
	ex.elemRef(ek, IntT(0), IntT(0)) // make sure the function is declared
	kid := ex.kindID("elem:" + ek)
	var walk func(t0 types.Type, prefix string, wrap func(Term) Term)
	walk = func(t0 types.Type, prefix string, wrap func(Term) Term) {
		s0 := structOf(t0)
		for i := 0; i < s0.NumFields(); i++ {
			ft := s0.Field(i).Type()
			fname := typeKey(t0) + "." + s0.Field(i).Name()
			switch kindOf(ft) {
			case KStruct:
				w := wrap
				walk(ft, fname, func(r Term) Term { return ex.subRef(fname, w(r)) })
				continue
			case KArray:
				continue
			}
			for _, c := range leafComps(ft) {
				name := fname + c.Suffix
				h := ex.heap(st, name, ArrSort(c.Sort))
				h2 := ex.D.Fresh("happ", ArrSort(c.Sort))
				n := Add(s.Len, tlen)
				// destination array/offset
				dArr := Ite(inPlace, s.Arr, fresh)
				dOff := Ite(inPlace, s.Off, IntT(0))
				j := Term{"j", SInt}
				dst := wrap(ex.elemRef(ek, dArr, Ix(dOff, j)))
				srcS := wrap(ex.elemRef(ek, s.Arr, Ix(s.Off, j)))
				srcT := wrap(ex.elemRef(ek, t.Arr, Ix(t.Off, Sub(j, s.Len))))
				st.Assume(Term{fmt.Sprintf("(forall ((j Int)) (! (=> (and (<= 0 j) (< j %s)) (= (select %s %s) (ite (< j %s) (select %s %s) (select %s %s)))) :pattern (%s)))",
					n.S, h2.S, dst.S, s.Len.S, h.S, srcS.S, h.S, srcT.S, dst.S), SBool})
				// frame: every reference that is not one of the destination elements keeps its value
				if prefix == "" {
					st.Assume(Term{fmt.Sprintf("(forall ((r Int)) (! (=> (not (and (= (subkind r) %d) (= (subbase r) %s) (<= %s (subidx r)) (< (subidx r) (+ %s %s)) (= r (%s %s (subidx r))))) (= (select %s r) (select %s r))) :pattern ((select %s r))))",
						kid, dArr.S, dOff.S, dOff.S, n.S, smtSym("elem:"+ek), dArr.S, h2.S, h.S, h2.S), SBool})
				}
				st.Heaps[name] = h2
				ex.recordWrite(name, LHeap1, dArr, ArrSort(c.Sort))
			}
		}
	}
	_ = stt
	walk(elem, "", func(r Term) Term { return r })
}

func (ex *Exec) copyOp(st *State, instr ssa.Instruction, cc *ssa.CallCommon, args []Val) Val {
	dt := cc.Args[0].Type()
	d := ex.coerce(args[0], dt).(SliceV)
	elem := dt.Underlying().(*types.Slice).Elem()
	if kindOf(elem) == KStruct || kindOf(elem) == KArray {
		ex.unsupported("copy on slice of %s", elem)
		return ex.D.Fresh("copied", SInt)
	}
	var slen Term
	isStr := kindOf(cc.Args[1].Type()) == KString
	var sv SliceV
	var sb Term
	if isStr {
		sb = args[1].(Term)
		slen = App(SInt, "blen", sb)
	} else {
		sv = ex.coerce(args[1], cc.Args[1].Type()).(SliceV)
		slen = sv.Len
	}
	n := Ite(Le(d.Len, slen), d.Len, slen)
	for _, c := range leafComps(elem) {
		name := "[]" + typeKey(elem) + c.Suffix
		h := ex.heap(st, name, Arr2Sort(c.Sort))
		oldD := Select(h, d.Arr)
		var src func(j Term) Term
		if isStr {
			src = func(j Term) Term { return App(SInt, "bat", sb, Sub(j, d.Off)) }
		} else {
			oldS := Select(h, sv.Arr)
			src = func(j Term) Term { return Select(oldS, Ix(sv.Off, Sub(j, d.Off))) }
		}
		na := ex.rangeUpdate(st, oldD, d.Off, Add(d.Off, n), src)
		if name == "[]uint8" {
			// content-level consequences of the element-wise definition (byte strings are extensional)
			if isStr {
				st.Assume(Eq(App(SBytes, "bslice", na, d.Off, n), App(SBytes, "bsub", sb, IntT(0), n)))
			} else {
				st.Assume(Eq(App(SBytes, "bslice", na, d.Off, n), App(SBytes, "bslice", Select(h, sv.Arr), sv.Off, n)))
			}
			ex.assumeBytesFrame(st, na, oldD, d.Off, Add(d.Off, n))
		}
		st.Heaps[name] = Store(h, d.Arr, na)
		ex.recordWrite(name, LHeap2, d.Arr, Arr2Sort(c.Sort))
	}
	return n
}

// assumeBytesFrame: byte ranges of the new array that do not overlap [lo,hi) read as before.
func (ex *Exec) assumeBytesFrame(st *State, na, old Term, lo, hi Term) {
	if na.S == old.S {
		return
	}
	st.Assume(Term{fmt.Sprintf("(forall ((o Int) (l Int)) (! (=> (or (<= (+ o l) %s) (>= o %s)) (= (bslice %s o l) (bslice %s o l))) :pattern ((bslice %s o l))))",
		lo.S, hi.S, na.S, old.S, na.S), SBool})
}

// pureClosureTerm evaluates a side-effect free, single-path closure body on a symbolic
// argument and returns its boolean result as a term (used for sort.Search predicates).
func (ex *Exec) pureClosureTerm(st *State, c *ClosureV, arg Term) (Term, bool) {
	sand := st.Clone()
	savedDisc, savedPaths := ex.disc, ex.paths
	// run like a discovery: no obligations are emitted inside the sandbox
	ex.disc = &discovery{watermark: ex.D.n, loop: &Loop{Blocks: map[*ssa.BasicBlock]bool{}}, frameID: -1, globals: map[*ssa.Global]bool{}}
	var results []Term
	fr := ex.newFrame(sand, c.Fn)
	fr.Free = c.Bind
	if len(c.Fn.Params) == 1 {
		fr.Regs[c.Fn.Params[0]] = arg
	}
	ex.depth++
	ex.run(sand, fr.ID, c.Fn.Blocks[0], 0, nil, func(s2 *State, res []Val) {
		if len(res) == 1 {
			if t, ok := res[0].(Term); ok {
				results = append(results, t)
			}
		}
	})
	ex.depth--
	wrote := len(ex.disc.writes) > 0
	ex.disc, ex.paths = savedDisc, savedPaths
	if len(results) != 1 || wrote {
		return Term{}, false
	}
	return results[0], true
}

// sortSearch models sort.Search(n, f) for a pure predicate f given as a closure literal:
// the result r satisfies 0 <= r <= n, f(r) if r < n, and !f(k) for every k < r. (That this is
// the least such index for every f that is false on a prefix and true on the rest is
// sort.Search's documented contract; f is only evaluated on 0 <= i < n.)
func (ex *Exec) sortSearch(st *State, frID int, n Term, c *ClosureV) Term {
	ex.externs["sort.Search (binary search contract over the inlined predicate)"] = true
	r := ex.D.Fresh("search", SInt)
	st.Assume(And(Le(IntT(0), r), Le(r, n)))
	tr, ok := ex.pureClosureTerm(st, c, r)
	if !ok {
		ex.unsupported("sort.Search predicate is not a pure single-path closure")
		return r
	}
	st.Assume(Implies(Lt(r, n), tr))
	ex.D.n++
	kname := fmt.Sprintf("k!%d", ex.D.n)
	tk, ok := ex.pureClosureTerm(st, c, Term{kname, SInt})
	if ok {
		st.Assume(Term{fmt.Sprintf("(forall ((%s Int)) (=> (and (<= 0 %s) (< %s %s)) (not %s)))", kname, kname, kname, r.S, tk.S), SBool})
	}
	return r
}

// sprintfConcat models fmt.Sprintf for a constant format. A format made of literal text and %s
// verbs over strings / byte slices is the concatenation; a format that also has %f (float) or %d
// (integer) verbs is an uninterpreted function of its arguments, one function per format string
// (injective in nothing: only "same arguments, same text" is known). The variadic arguments are
// recovered from the SSA shape (stores of MakeInterface values into the argument array);
// anything else is left to the generic (unconstrained) treatment.
func (ex *Exec) sprintfConcat(st *State, frID int, cc *ssa.CallCommon) (Term, bool) {
	fc, ok := cc.Args[0].(*ssa.Const)
	if !ok || fc.Value == nil || fc.Value.Kind() != constant.String {
		return Term{}, false
	}
	format := constant.StringVal(fc.Value)
	sl, ok := cc.Args[1].(*ssa.Slice)
	if !ok {
		return Term{}, false
	}
	al, ok := sl.X.(*ssa.Alloc)
	if !ok || al.Referrers() == nil {
		return Term{}, false
	}
	argv := map[int64]ssa.Value{}
	for _, r := range *al.Referrers() {
		ia, ok := r.(*ssa.IndexAddr)
		if !ok {
			continue
		}
		ic, ok := ia.Index.(*ssa.Const)
		if !ok || ia.Referrers() == nil {
			return Term{}, false
		}
		for _, rr := range *ia.Referrers() {
			if sto, ok := rr.(*ssa.Store); ok && sto.Addr == ia {
				mi, ok := sto.Val.(*ssa.MakeInterface)
				if !ok {
					return Term{}, false
				}
				argv[ic.Int64()] = mi.X
			}
		}
	}
	fr := st.Frames[frID]
	var args []Term
	for i := int64(0); i < int64(len(argv)); i++ {
		x, ok := argv[i]
		if !ok {
			return Term{}, false
		}
		switch kindOf(x.Type()) {
		case KString, KInt, KFloat:
			t, ok := ex.val(st, fr, x).(Term)
			if !ok {
				return Term{}, false
			}
			args = append(args, t)
		case KSlice:
			if !isByteSlice(x.Type()) {
				return Term{}, false
			}
			sv, ok := ex.val(st, fr, x).(SliceV)
			if !ok {
				return Term{}, false
			}
			args = append(args, ex.content(st, sv))
		default:
			return Term{}, false
		}
	}
	return ex.sprintfTerm(format, args)
}

// sprintfTerm builds the term for a format and already evaluated arguments (also used by the
// contract builtin sprintf("format", args...)).
func (ex *Exec) sprintfTerm(format string, args []Term) (Term, bool) {
	var parts []Term
	lit := ""
	flush := func() {
		if lit != "" {
			parts = append(parts, ex.bytesLit(lit))
			lit = ""
		}
	}
	n := 0
	onlyS := true
	for i := 0; i < len(format); i++ {
		if format[i] != '%' {
			lit += string(format[i])
			continue
		}
		if i+1 >= len(format) {
			return Term{}, false
		}
		i++
		switch format[i] {
		case '%':
			lit += "%"
		case 's', 'f', 'd':
			if n >= len(args) {
				return Term{}, false
			}
			a := args[n]
			n++
			want := map[byte]string{'s': SBytes, 'f': SF64, 'd': SInt}[format[i]]
			if a.Sort != want {
				return Term{}, false
			}
			if format[i] != 's' {
				onlyS = false
			}
			flush()
			parts = append(parts, a)
		default:
			return Term{}, false
		}
	}
	flush()
	if n != len(args) {
		return Term{}, false
	}
	if !onlyS {
		sorts := make([]string, len(args))
		for i, a := range args {
			sorts[i] = a.Sort
		}
		f := ex.D.Fun("sprintf:"+format, sorts, SBytes)
		return App(SBytes, f, args...), true
	}
	if len(parts) == 0 {
		return ex.bytesLit(""), true
	}
	r := parts[0]
	for _, p := range parts[1:] {
		r = App(SBytes, "bconcat", r, p)
	}
	return r, true
}
