package main

import (
	"fmt"
	"math/big"
	"strings"
)

// Term is an SMT-LIB term with its sort. Terms are plain strings; the smart
// constructors below fold constants so that path conditions on literal
// values (range indices, switch tags) disappear early.
type Term struct {
	S    string
	Sort string
}

const (
	SInt   = "Int"
	SBool  = "Bool"
	SBytes = "Bytes"
	SF64   = "F64"
	SLog   = "Log"
	SElem  = "Elem"
)

func ArrSort(elem string) string  { return "(Array Int " + elem + ")" }
func Arr2Sort(elem string) string { return "(Array Int (Array Int " + elem + "))" }

var (
	True  = Term{"true", SBool}
	False = Term{"false", SBool}
)

func IntT(n int64) Term {
	if n < 0 {
		return Term{fmt.Sprintf("(- %d)", -n), SInt}
	}
	return Term{fmt.Sprintf("%d", n), SInt}
}

func BigT(n *big.Int) Term {
	if n.Sign() < 0 {
		return Term{"(- " + new(big.Int).Neg(n).String() + ")", SInt}
	}
	return Term{n.String(), SInt}
}

func (t Term) IsTrue() bool  { return t.S == "true" }
func (t Term) IsFalse() bool { return t.S == "false" }

// numeral returns the value of an integer literal term.
func (t Term) numeral() (*big.Int, bool) {
	s := t.S
	neg := false
	if strings.HasPrefix(s, "(- ") && strings.HasSuffix(s, ")") {
		s = s[3 : len(s)-1]
		neg = true
	}
	if s == "" || s[0] < '0' || s[0] > '9' {
		return nil, false
	}
	for _, c := range s {
		if c < '0' || c > '9' {
			return nil, false
		}
	}
	n, ok := new(big.Int).SetString(s, 10)
	if !ok {
		return nil, false
	}
	if neg {
		n.Neg(n)
	}
	return n, true
}

func App(sort, op string, args ...Term) Term {
	if len(args) == 0 {
		return Term{op, sort}
	}
	var b strings.Builder
	b.WriteString("(")
	b.WriteString(op)
	for _, a := range args {
		b.WriteString(" ")
		b.WriteString(a.S)
	}
	b.WriteString(")")
	return Term{b.String(), sort}
}

func Not(a Term) Term {
	if a.IsTrue() {
		return False
	}
	if a.IsFalse() {
		return True
	}
	if strings.HasPrefix(a.S, "(not ") {
		return Term{a.S[5 : len(a.S)-1], SBool}
	}
	return App(SBool, "not", a)
}

func And(ts ...Term) Term {
	var keep []Term
	for _, t := range ts {
		if t.IsFalse() {
			return False
		}
		if t.IsTrue() {
			continue
		}
		keep = append(keep, t)
	}
	if len(keep) == 0 {
		return True
	}
	if len(keep) == 1 {
		return keep[0]
	}
	return App(SBool, "and", keep...)
}

func Or(ts ...Term) Term {
	var keep []Term
	for _, t := range ts {
		if t.IsTrue() {
			return True
		}
		if t.IsFalse() {
			continue
		}
		keep = append(keep, t)
	}
	if len(keep) == 0 {
		return False
	}
	if len(keep) == 1 {
		return keep[0]
	}
	return App(SBool, "or", keep...)
}

func Implies(a, b Term) Term {
	if a.IsTrue() {
		return b
	}
	if a.IsFalse() || b.IsTrue() {
		return True
	}
	return App(SBool, "=>", a, b)
}

func Eq(a, b Term) Term {
	if a.S == b.S {
		return True
	}
	if x, ok := a.numeral(); ok {
		if y, ok := b.numeral(); ok {
			if x.Cmp(y) == 0 {
				return True
			}
			return False
		}
	}
	if a.Sort == SBool {
		if b.IsTrue() {
			return a
		}
		if b.IsFalse() {
			return Not(a)
		}
		if a.IsTrue() {
			return b
		}
		if a.IsFalse() {
			return Not(b)
		}
	}
	return App(SBool, "=", a, b)
}

func Neq(a, b Term) Term { return Not(Eq(a, b)) }

func Ite(c, a, b Term) Term {
	if c.IsTrue() {
		return a
	}
	if c.IsFalse() {
		return b
	}
	if a.S == b.S {
		return a
	}
	if a.Sort == SBool {
		if a.IsTrue() && b.IsFalse() {
			return c
		}
		if a.IsFalse() && b.IsTrue() {
			return Not(c)
		}
	}
	return App(a.Sort, "ite", c, a, b)
}

func arith(op string, a, b Term) Term {
	x, ok1 := a.numeral()
	y, ok2 := b.numeral()
	if ok1 && ok2 {
		r := new(big.Int)
		switch op {
		case "+":
			return BigT(r.Add(x, y))
		case "-":
			return BigT(r.Sub(x, y))
		case "*":
			return BigT(r.Mul(x, y))
		}
	}
	if op == "+" {
		if ok1 && x.Sign() == 0 {
			return b
		}
		if ok2 && y.Sign() == 0 {
			return a
		}
	}
	if op == "-" && ok2 && y.Sign() == 0 {
		return a
	}
	if op == "*" {
		if ok1 && x.Cmp(big.NewInt(1)) == 0 {
			return b
		}
		if ok2 && y.Cmp(big.NewInt(1)) == 0 {
			return a
		}
	}
	return App(SInt, op, a, b)
}

func Add(a, b Term) Term { return arith("+", a, b) }
func Sub(a, b Term) Term { return arith("-", a, b) }
func Mul(a, b Term) Term { return arith("*", a, b) }

func cmp(op string, a, b Term) Term {
	x, ok1 := a.numeral()
	y, ok2 := b.numeral()
	if ok1 && ok2 {
		c := x.Cmp(y)
		var r bool
		switch op {
		case "<":
			r = c < 0
		case "<=":
			r = c <= 0
		case ">":
			r = c > 0
		case ">=":
			r = c >= 0
		}
		if r {
			return True
		}
		return False
	}
	if a.S == b.S {
		if op == "<=" || op == ">=" {
			return True
		}
		return False
	}
	return App(SBool, op, a, b)
}

func Lt(a, b Term) Term { return cmp("<", a, b) }
func Le(a, b Term) Term { return cmp("<=", a, b) }
func Gt(a, b Term) Term { return cmp(">", a, b) }
func Ge(a, b Term) Term { return cmp(">=", a, b) }

// Ix is the absolute index off+i of element i of a slice with offset off. It is kept as the
// uninterpreted application (ix off i) (defined by an axiom) so that quantified facts about
// slice elements have an arithmetic-free trigger; with a literal zero offset it is just i.
func Ix(off, i Term) Term {
	if n, ok := off.numeral(); ok {
		if n.Sign() == 0 {
			return i
		}
		if _, ok2 := i.numeral(); ok2 {
			return Add(off, i)
		}
	}
	return App(SInt, "ix", off, i)
}

func Select(arr, idx Term) Term {
	// arr sort "(Array Int X)": strip to X
	s := arr.Sort
	elem := SInt
	if strings.HasPrefix(s, "(Array ") {
		rest := s[len("(Array "):]
		// index sort is a single token or parenthesised; we only use simple index sorts
		i := strings.Index(rest, " ")
		elem = rest[i+1 : len(rest)-1]
	}
	// select(store(a, i, v), i) = v
	if strings.HasPrefix(arr.S, "(store ") {
		if a, i, v, ok := splitStore(arr.S); ok {
			if i == idx.S {
				return Term{v, elem}
			}
			_ = a
		}
	}
	return App(elem, "select", arr, idx)
}

// splitStore splits "(store a i v)" into its three argument strings.
func splitStore(s string) (a, i, v string, ok bool) {
	body := s[len("(store ") : len(s)-1]
	var parts []string
	for len(body) > 0 {
		body = strings.TrimLeft(body, " ")
		if body == "" {
			break
		}
		n := 0
		if body[0] == '(' {
			depth := 0
			for n = 0; n < len(body); n++ {
				if body[n] == '(' {
					depth++
				} else if body[n] == ')' {
					depth--
					if depth == 0 {
						n++
						break
					}
				}
			}
		} else {
			for n < len(body) && body[n] != ' ' {
				n++
			}
		}
		parts = append(parts, body[:n])
		body = body[n:]
	}
	if len(parts) != 3 {
		return "", "", "", false
	}
	return parts[0], parts[1], parts[2], true
}

func Store(arr, idx, v Term) Term { return App(arr.Sort, "store", arr, idx, v) }

func pow2(n uint) *big.Int { return new(big.Int).Lsh(big.NewInt(1), n) }

// smtSym turns an arbitrary name into a simple SMT-LIB symbol (no quoting needed):
// unsafe characters become '_' and a hash of the original keeps names distinct.
func smtSym(s string) string {
	changed := false
	b := []byte(s)
	for i, c := range b {
		if !(c >= 'a' && c <= 'z' || c >= 'A' && c <= 'Z' || c >= '0' && c <= '9' || c == '_' || c == '.' || c == '!' || c == '$' || c == '-' || c == '~' || c == '@') {
			if c == ':' {
				b[i] = '.'
				continue
			}
			if c == '#' {
				b[i] = '$'
				continue
			}
			b[i] = '_'
			changed = true
		}
	}
	if len(b) > 0 && b[0] >= '0' && b[0] <= '9' {
		b = append([]byte{'_'}, b...)
	}
	if changed {
		return fmt.Sprintf("%s~%x", b, hashStr(s))
	}
	return string(b)
}
