package main

import (
	"fmt"
	"go/types"
	"os"
	"regexp"
	"sort"
	"strings"

	"golang.org/x/tools/go/ssa"
)

type Obligation struct {
	Groups   map[string][][]Term
	Name     string // <func>#<kind>:<label>
	Func     string
	Kind     string
	Label    string
	Props    []string
	PC       []Term
	Goal     Term
	Decls    *Decls
	Where    string
	Src      string
	Trace    []string
	Result   *SolveResult
	KnownBad bool
	// Batch: obligations generated at one program point under one path condition (the frame
	// obligations of one return) carry the same non-zero id; SolveAll first tries their conjunction.
	Batch int
}

func (ex *Exec) oblige(st *State, kind, label string, props []string, goal Term, src string) {
	if ex.disc != nil {
		return
	}
	if goal.IsTrue() {
		// trivially discharged by constant folding; still counted
		ex.obls = append(ex.obls, &Obligation{Name: ex.oblName() + "#" + kind + ":" + label, Func: ex.oblName(), Kind: kind, Label: label, Props: props, Goal: goal, Decls: ex.D, Where: ex.curPos, Src: src,
			Result: &SolveResult{Status: "unsat", Backend: "constant-folding"}})
		return
	}
	// goal literally among the assumptions of this path (typically a loop invariant or precondition
	// conjunct that is needed again): discharged by lookup
	if ex.assumedLiterally(st, goal) {
		ex.obls = append(ex.obls, &Obligation{Name: ex.oblName() + "#" + kind + ":" + label, Func: ex.oblName(), Kind: kind, Label: label, Props: props, Goal: goal, Decls: ex.D, Where: ex.curPos, Src: src,
			Result: &SolveResult{Status: "unsat", Backend: "assumption-lookup"}})
		return
	}
	ex.obls = append(ex.obls, &Obligation{Name: ex.oblName() + "#" + kind + ":" + label, Func: ex.oblName(), Kind: kind, Label: label, Props: props,
		PC: append([]Term(nil), st.PC...), Goal: goal, Decls: ex.D, Where: ex.curPos, Src: src, Trace: append([]string(nil), st.Trace...), Groups: ex.groups})
}

// canary: an "assert false" that must NOT be provable (vacuity guard, DESIGN.md 3.7).
func (ex *Exec) canary(st *State, label string) {
	if !ex.canaries || ex.disc != nil {
		return
	}
	if ex.canaryN == nil {
		ex.canaryN = map[string]int{}
	}
	limit := 2
	if strings.HasPrefix(label, "return@") {
		limit = 80 // the first paths that reach a return statement may be infeasible ones (both append modes, say)
	}
	if ex.canaryN[label] >= limit {
		return
	}
	ex.canaryN[label]++
	ex.obls = append(ex.obls, &Obligation{Name: ex.oblName() + "#canary:" + label, Func: ex.oblName(), Kind: "canary", Label: label,
		PC: append([]Term(nil), st.PC...), Goal: False, Decls: ex.D, Where: ex.curPos, Src: "assert false must fail", Groups: ex.groups})
}

func (ex *Exec) clauseProps(c *Clause) []string {
	if len(c.Props) > 0 {
		return c.Props
	}
	if ex.contract != nil {
		return ex.contract.Props
	}
	return nil
}

func (ex *Exec) obligeClause(st *State, kind, label string, c *Clause, goal Term) {
	ex.oblige(st, kind, label, ex.clauseProps(c), goal, c.Src)
}

func (ex *Exec) bindingError(c *Clause, err error) {
	msg := fmt.Sprintf("contract-binding: %s:%d [%s]: %v", shortPath(c.File), c.Line, c.Label, err)
	for _, e := range ex.errs {
		if e == msg {
			return
		}
	}
	ex.errs = append(ex.errs, msg)
}

func shortPath(p string) string {
	if i := strings.Index(p, "/repo/"); i >= 0 {
		return p[i+6:]
	}
	return p
}

// contractEnv binds parameter names of a contract to argument values.
func (ex *Exec) contractEnv(st, old *State, fc *FuncContract, sig *types.Signature, args []Val) (*Env, error) {
	env := &Env{ex: ex, st: st, old: old, vars: map[string]EV{}, pkg: ex.fn.Pkg}
	if env.pkg == nil && ex.fn.Parent() != nil {
		env.pkg = ex.fn.Parent().Pkg
	}
	// resolve names against the callee's package where possible
	if p, ok := ex.ctx.byName[fc.PkgName]; ok {
		env.pkg = p
	}
	var ptypes []types.Type
	if sig.Recv() != nil {
		ptypes = append(ptypes, sig.Recv().Type())
	} else if fc.Recv != "" && len(args) > 0 {
		// invoke through an interface: the receiver is the interface value itself
		ptypes = append(ptypes, nil)
	}
	for i := 0; i < sig.Params().Len(); i++ {
		ptypes = append(ptypes, sig.Params().At(i).Type())
	}
	if len(fc.Params) != len(args) {
		return nil, fmt.Errorf("contract %s names %d parameters, the function has %d", fc.Key, len(fc.Params), len(args))
	}
	for i, p := range fc.Params {
		var t types.Type
		if i < len(ptypes) {
			t = ptypes[i]
		}
		if t == nil && fc.Recv != "" && i == 0 {
			if nt := ex.ifaceTypeOf(fc); nt != nil {
				if _, ok := args[i].(IfaceV); ok {
					t = nt
				} else if kindOf(nt) == KStruct {
					t = types.NewPointer(nt)
				}
			}
		}
		v := args[i]
		if t != nil && kindOf(t) == KStruct {
			// struct passed by value: keep as a value
		}
		env.vars[p.Name] = EV{V: v, T: t}
	}
	return env, nil
}

func (ex *Exec) ifaceTypeOf(fc *FuncContract) types.Type {
	if p, ok := ex.ctx.byName[fc.PkgName]; ok {
		if t := p.Type(fc.Recv); t != nil {
			return t.Type()
		}
	}
	// library interface types: look through the imports of all loaded packages
	for _, p := range ex.ctx.pkgs {
		for _, imp := range p.Pkg.Imports() {
			if imp.Name() == fc.PkgName {
				if o := imp.Scope().Lookup(fc.Recv); o != nil {
					return o.Type()
				}
			}
		}
	}
	return nil
}

func (ex *Exec) bindLets(env *Env, fc *FuncContract, in *State) error {
	for _, l := range fc.Lets {
		n := *env
		n.st = in
		v, err := n.eval(l.E)
		if err != nil {
			return fmt.Errorf("let %s: %v", l.Name, err)
		}
		// lets bind tighter than source-level locals of the same name
		if env.bound == nil {
			env.bound = map[string]EV{}
		}
		env.bound[l.Name] = v
	}
	return nil
}

// modLoc is one entry of a modifies clause resolved to heap components.
type modLoc struct {
	heap string
	sort string
	kind LocKind // LHeap1: (heap, ref); LHeap2: (heap, arr) whole array; LCell: scalar ghost value
	ref  Term
}

func (env *Env) modLocs(e Expr) ([]modLoc, error) {
	ex := env.ex
	var out []modLoc
	addLeaf := func(l Loc) {
		switch l.Kind {
		case LHeap1:
			for _, c := range leafComps(l.Typ) {
				out = append(out, modLoc{l.Heap + c.Suffix, ArrSort(c.Sort), LHeap1, l.Ref})
			}
		case LHeap2:
			for _, c := range leafComps(l.Typ) {
				out = append(out, modLoc{l.Heap + c.Suffix, Arr2Sort(c.Sort), LHeap2, l.Ref})
			}
		}
	}
	var addStruct func(t types.Type, ref Term)
	addStruct = func(t types.Type, ref Term) {
		s := structOf(t)
		for i := 0; i < s.NumFields(); i++ {
			l, _ := ex.fieldLoc(t, ref, i)
			if l.Kind == LStruct {
				addStruct(l.Typ, l.Ref)
			} else {
				addLeaf(l)
			}
		}
	}
	switch x := e.(type) {
	case *ESel:
		v, err := env.eval(x.X)
		if err != nil {
			return nil, err
		}
		if g := env.findGhost(v.T, x.Name); g != nil {
			{
				var ref Term
				switch r := v.V.(type) {
				case IfaceV:
					ref = r.Ref
				case Term:
					ref = r
				case StructRefV:
					ref = r.Ref
				}
				sort, _ := env.ghostSort(g)
				return []modLoc{{"ghost:" + g.Type + "." + g.Name, ArrSort(sort), LHeap1, ref}}, nil
			}
		}
		ref, st, ok := structRefOf(v)
		if !ok {
			return nil, fmt.Errorf("modifies: %s is not a field of a heap object", x.Name)
		}
		s := structOf(st)
		for i := 0; i < s.NumFields(); i++ {
			if s.Field(i).Name() == x.Name {
				l, _ := ex.fieldLoc(st, ref, i)
				if l.Kind == LStruct {
					addStruct(l.Typ, l.Ref)
				} else {
					addLeaf(l)
				}
				return out, nil
			}
		}
		for i := 0; i < s.NumFields(); i++ {
			if s.Field(i).Embedded() && kindOf(s.Field(i).Type()) == KStruct {
				l, _ := ex.fieldLoc(st, ref, i)
				r, err := env.with("$emb", EV{V: StructRefV{l.Ref}, T: s.Field(i).Type()}).modLocs(&ESel{&EIdent{"$emb"}, x.Name})
				if err == nil {
					return r, nil
				}
			}
		}
		return nil, &bindErr{fmt.Sprintf("modifies: no field %s", x.Name)}
	case *ESlice, *EIndex:
		var inner Expr
		if s, ok := x.(*ESlice); ok {
			inner = s.X
		} else {
			inner = x.(*EIndex).X
		}
		// as(x, T)[..] where x is known to hold a value of another type: nothing of T is written (a contract shared by
		// several dynamic types, such as sort.Sort's, lists the locations per type)
		if c, ok := inner.(*ECall); ok && len(c.Args) == 2 {
			if id, ok := c.Fn.(*EIdent); ok && id.Name == "as" {
				if xv, err := env.eval(c.Args[0]); err == nil {
					if iv, ok := xv.V.(IfaceV); ok {
						if t, err := env.typeArg(c.Args[1]); err == nil {
							if n, isNum := iv.Tag.numeral(); isNum && n.Int64() != int64(ex.ctx.typeID(t)) {
								return nil, nil
							}
						}
					}
				}
			}
		}
		v, err := env.eval(inner)
		if err != nil {
			return nil, err
		}
		switch p := v.V.(type) {
		case SliceV:
			if v.T == nil {
				return nil, fmt.Errorf("modifies: untyped slice")
			}
			et := v.T.Underlying().(*types.Slice).Elem()
			if kindOf(et) == KStruct {
				// every field of every element of the backing array (over-approximation of the slice's range)
				stt := structOf(et)
				for i := 0; i < stt.NumFields(); i++ {
					ft := stt.Field(i).Type()
					if k := kindOf(ft); k == KStruct || k == KArray {
						return nil, fmt.Errorf("modifies on slices of structs with nested struct fields is not supported")
					}
					for _, c := range leafComps(ft) {
						out = append(out, modLoc{typeKey(et) + "." + stt.Field(i).Name() + c.Suffix, ArrSort(c.Sort), LBase, p.Arr})
					}
				}
				return out, nil
			}
			addLeaf(Loc{Kind: LHeap2, Heap: "[]" + typeKey(et), Ref: p.Arr, Typ: et})
			return out, nil
		case Term:
			if v.T != nil {
				if _, ok := v.T.Underlying().(*types.Map); ok {
					mi := mapInfoOf(v.T)
					out = append(out, modLoc{mi.key + "#dom", ArrSort(mapArr(mi.ks, SBool)), LHeap1, p})
					out = append(out, modLoc{mi.key + "#len", ArrSort(SInt), LHeap1, p})
					if kindOf(mi.vt) != KStruct {
						for _, c := range leafComps(mi.vt) {
							out = append(out, modLoc{mi.key + "#val" + c.Suffix, ArrSort(mapArr(mi.ks, c.Sort)), LHeap1, p})
						}
					}
					return out, nil
				}
			}
		}
		return nil, fmt.Errorf("modifies: cannot resolve %T", v.V)
	case *ECall:
		id, ok := x.Fn.(*EIdent)
		if !ok {
			return nil, fmt.Errorf("modifies: unsupported form")
		}
		switch id.Name {
		case "sent", "recvd", "closed", "drained":
			cv, err := env.eval(x.Args[0])
			if err != nil {
				return nil, err
			}
			ch, ok := cv.V.(Term)
			if !ok || cv.T == nil {
				return nil, fmt.Errorf("modifies %s needs a typed channel", id.Name)
			}
			ct, ok := cv.T.Underlying().(*types.Chan)
			if !ok {
				return nil, fmt.Errorf("modifies %s needs a channel", id.Name)
			}
			sort := SLog
			if id.Name == "closed" || id.Name == "drained" {
				sort = SBool
			}
			return []modLoc{{chanHeap(ct.Elem(), id.Name), ArrSort(sort), LHeap1, ch}}, nil
		case "calls":
			s, ok := x.Args[0].(*ESel)
			if !ok {
				return nil, fmt.Errorf("calls(recv.Method)")
			}
			recv, err := env.eval(s.X)
			if err != nil {
				return nil, err
			}
			key, ref, err := env.methodKeyOf(recv, s.Name)
			if err != nil {
				return nil, err
			}
			return []modLoc{{"calls:" + key, ArrSort(SLog), LHeap1, ref}}, nil
		case "spawned":
			if s, ok := x.Args[0].(*EStr); ok {
				return []modLoc{{"spawned:" + s.V, SLog, LCell, Term{}}}, nil
			}
		case "allof":
			// allof("heap name"): the whole heap component (for effects on statically unknown objects)
			if s, ok := x.Args[0].(*EStr); ok {
				sort := ""
				if t, ok := env.st.Heaps[s.V]; ok {
					sort = t.Sort
				}
				if strings.HasPrefix(s.V, "glog:") || strings.HasPrefix(s.V, "spawned:") {
					sort = SLog
				}
				return []modLoc{{s.V, sort, LCell, Term{}}}, nil
			}
		}
	case *EUnary:
		if x.Op == "*" {
			v, err := env.eval(x.X)
			if err != nil {
				return nil, err
			}
			if ref, st, ok := structRefOf(v); ok {
				addStruct(st, ref)
				return out, nil
			}
		}
	}
	return nil, fmt.Errorf("modifies: unsupported expression")
}

// applyContract cuts a call at the callee's contract.
func (ex *Exec) applyContract(st *State, frID int, instr ssa.Instruction, fc *FuncContract, sig *types.Signature, args []Val, k Cont) {
	if fc.Extern || fc.Trusted {
		ex.externs[fc.Key] = true
	}
	env, err := ex.contractEnv(st, nil, fc, sig, args)
	if err != nil {
		ex.errs = append(ex.errs, "contract-binding: "+err.Error())
		k(st, ex.freshResults(st, sig.Results(), "res"))
		return
	}
	if err := ex.bindLets(env, fc, st); err != nil {
		ex.errs = append(ex.errs, "contract-binding: "+fc.Key+": "+err.Error())
	}
	// receiver of a method contract must not be nil
	if fc.Recv != "" && len(args) > 0 && !fc.Iface {
		if p, ok := args[0].(Term); ok && fc.RecvPtr {
			ex.checkNonNil(st, p, instr, "nil receiver in call of "+fc.Key)
		}
	}
	for _, c := range fc.Requires {
		g, err := env.evalBool(c.E)
		if err != nil {
			ex.bindingError(c, err)
			continue
		}
		props := c.Props
		if len(props) == 0 {
			props = fc.Props
		}
		if ex.contract != nil && len(props) == 0 {
			props = ex.contract.Props
		}
		ex.oblige(st, "precondition", fmt.Sprintf("%s:%s @ %s", fc.Key, c.Label, ex.srcLine(instr)), props, g, c.Src)
		st.Assume(g)
	}
	for _, c := range fc.ObjInvs {
		g, err := env.evalBool(c.E)
		if err != nil {
			ex.bindingError(c, err)
			continue
		}
		st.Assume(g)
		ex.assumed["object invariant of "+fc.Key+" assumed at its call sites (private state; established by the constructor and re-established by every method under contract): "+c.Src] = true
	}
	pre := st.Clone()
	env.old = pre
	if fc.Logged && len(args) > 0 {
		var ref Term
		switch r := args[0].(type) {
		case IfaceV:
			ref = r.Ref
		case Term:
			ref = r
		}
		name := "calls:" + fc.Key
		h := ex.heap(st, name, ArrSort(SLog))
		var ats []types.Type
		for i := 0; i < sig.Params().Len(); i++ {
			ats = append(ats, sig.Params().At(i).Type())
		}
		st.Heaps[name] = Store(h, ref, App(SLog, "lsnoc", Select(h, ref), ex.argsElem(st, args[1:], ats)))
		ex.recordWrite(name, LHeap1, ref, ArrSort(SLog))
	}
	if !fc.Pure {
		nt := ex.D.Fresh("top", SInt)
		st.Assume(Ge(nt, st.Top))
		st.Top = nt
		if ex.disc != nil {
			ex.disc.allocated = true
		}
	}
	// havoc what the callee may modify
	if fc.ModAll {
		ex.havocAll(st)
	} else {
		var recs []writeRec
		for i, m := range fc.Modifies {
			n := *env
			n.st = pre
			locs, err := n.modLocs(m)
			if err != nil {
				ex.errs = append(ex.errs, fmt.Sprintf("contract-binding: %s modifies %s: %v", fc.Key, fc.ModSrc[i], err))
				continue
			}
			for _, l := range locs {
				if l.kind == LCell {
					if l.sort == "" || strings.HasPrefix(l.sort, "(Array") {
						// whole heap component
						if cur, ok := st.Heaps[l.heap]; ok {
							st.Heaps[l.heap] = ex.freshHeapVal(st, l.heap, "hv:"+shortName(l.heap), cur.Sort)
							ex.recordWriteAll(l.heap, cur.Sort)
						} else {
							ex.pendingHavoc(st, l.heap)
						}
						continue
					}
					st.Heaps[l.heap] = ex.freshHeapVal(st, l.heap, "hv", l.sort)
					if ex.disc != nil {
						ex.disc.writes = append(ex.disc.writes, writeRec{heap: l.heap, kind: LCell, sort: l.sort})
					}
					continue
				}
				recs = append(recs, writeRec{heap: l.heap, kind: l.kind, ref: l.ref, sort: l.sort, precise: true})
				ex.recordWrite(l.heap, l.kind, l.ref, l.sort)
			}
		}
		ex.applyHavoc(st, recs)
	}
	res := ex.freshResults(st, sig.Results(), "res:"+fc.Name)
	if fc.Fresh && len(res) > 0 {
		if ex.freshRes == nil {
			ex.freshRes = map[string]int{}
		}
		switch r := res[0].(type) {
		case Term:
			ex.freshRes[r.S] = ex.D.n
		case SliceV:
			ex.freshRes[r.Arr.S] = ex.D.n
		case IfaceV:
			ex.freshRes[r.Ref.S] = ex.D.n
		}
	}
	if fc.Fresh && sig.Results().Len() > 0 {
		ex.allocateFor(st, res[0], sig.Results().At(0).Type())
	}
	env.st = st
	ex.bindResults(env, fc, sig, res)
	if fc.Fresh && len(res) > 0 {
		// a fresh result is either nil or an object allocated by the callee
		switch r := res[0].(type) {
		case Term:
			st.Assume(Or(Eq(r, IntT(0)), Gt(r, pre.Top)))
		case SliceV:
			st.Assume(Or(Eq(r.Arr, IntT(0)), Gt(r.Arr, pre.Top)))
		case IfaceV:
			st.Assume(Or(Eq(r.Ref, IntT(0)), Gt(r.Ref, pre.Top)))
		}
	}
	for _, c := range fc.Ensures {
		g, err := env.evalBool(c.E)
		if err != nil {
			ex.bindingError(c, err)
			continue
		}
		st.Assume(g)
	}
	if fc.Nonblock == false && fc.Extern == false {
		// effects of contracted repo callees are tracked through their own checks
	}
	k(st, res)
}

func (ex *Exec) recordWriteAll(heap, sort string) {
	if ex.disc != nil {
		ex.disc.writes = append(ex.disc.writes, writeRec{heap: heap, kind: LHeap1, sort: sort, precise: false})
	}
}

// pendingHavoc: a whole-heap havoc of a component not touched so far on this path:
// when it is first used it gets a name distinct from the entry-state one.
func (ex *Exec) pendingHavoc(st *State, heap string) {
	ex.D.n++
	st.PendingBase[heap] = fmt.Sprintf("H%d", ex.D.n)
}

func (ex *Exec) havocAll(st *State) {
	ex.D.n++
	st.Base = fmt.Sprintf("H%d", ex.D.n)
	st.PendingBase = map[string]string{}
	for _, name := range sortedKeys(st.Heaps) {
		cur := st.Heaps[name]
		st.Heaps[name] = ex.freshHeapVal(st, name, "hv:"+shortName(name), cur.Sort)
		ex.recordWriteAll(name, cur.Sort)
	}
	for g := range st.Globals {
		st.Globals[g] = ex.symbolic(st, "G."+g.Name(), deref(g.Type()))
		if ex.disc != nil {
			ex.disc.globals[g] = true
		}
	}
}

func (ex *Exec) bindResults(env *Env, fc *FuncContract, sig *types.Signature, res []Val) {
	rs := sig.Results()
	for i := 0; i < rs.Len() && i < len(res); i++ {
		ev := EV{V: res[i], T: rs.At(i).Type()}
		if i < len(fc.Results) {
			env.vars[fc.Results[i].Name] = ev
		}
		if rs.At(i).Name() != "" {
			if _, taken := env.vars[rs.At(i).Name()]; !taken {
				env.vars[rs.At(i).Name()] = ev
			}
		}
		if i == 0 {
			if _, taken := env.vars["result"]; !taken {
				env.vars["result"] = ev
			}
		}
	}
}

// ---- verifying one function ------------------------------------------------------------------------

// smallFunc: up to this many explored edges a function is verified path by path; join merging
// (memo.go) is only an answer to path explosion and makes quantified goals harder for the solvers.
const smallFunc = 600

// VerifyFunc runs the symbolic execution of one function: without join merging when the function
// is small, with it otherwise.
func VerifyFunc(ctx *Ctx, fn *ssa.Function, fc *FuncContract, safety, canaries bool) (ex *Exec) {
	return VerifyFuncAs(ctx, fn, fc, safety, canaries, "")
}

func VerifyFuncAs(ctx *Ctx, fn *ssa.Function, fc *FuncContract, safety, canaries bool, nameAs string) (ex *Exec) {
	run := func(merge bool) *Exec {
		ex := NewExec(ctx, fn, fc, safety)
		ex.nameAs = nameAs
		ex.canaries = canaries
		if !merge {
			ex.noMemo = true
			ex.pathCap = smallFunc
		}
		func() {
			defer func() {
				if r := recover(); r != nil {
					ex.errs = append(ex.errs, fmt.Sprintf("engine failure: %v", r))
				}
			}()
			ex.Verify()
		}()
		return ex
	}
	if os.Getenv("GCV_MEMO") == "" && !(fc != nil && fc.Merge) {
		if ex = run(false); !ex.capHit {
			return ex
		}
	}
	return run(true)
}

// oblName: the name obligations of this run are reported under (the function, or "field<-function" when the body
// of a function stored in a function-typed field is verified against the contract of that field)
func (ex *Exec) oblName() string {
	if ex.nameAs != "" {
		return ex.nameAs
	}
	return funcKey(ex.fn)
}

func NewExec(ctx *Ctx, fn *ssa.Function, fc *FuncContract, safety bool) *Exec {
	return &Exec{noMemo: os.Getenv("GCV_NOMEMO") != "", ctx: ctx, D: NewDecls(), fn: fn, contract: fc, safety: safety, externs: map[string]bool{}, assumed: map[string]bool{},
		inlined: map[string]bool{}, subKinds: map[string]int{}, litSeen: map[string]Term{}}
}

func (ex *Exec) Verify() {
	fn, fc := ex.fn, ex.contract
	if fc != nil && fc.NoSafety != "" {
		ex.safety = false
		ex.assumed["panic-freedom of "+fc.Key+" is not checked: "+fc.NoSafety] = true
	}
	if fn.Blocks == nil {
		ex.unsupported("function %s has no body", fn.Name())
		return
	}
	if fc != nil && (len(fc.Branches) > 0 || len(fc.RecvAssumes) > 0) {
		// every branch / assume_recv label must name a select case that exists (a renamed receiver or
		// channel would otherwise silently switch the clause off)
		var texts []string
		for _, b := range fn.Blocks {
			for _, in := range b.Instrs {
				if sel, ok := in.(*ssa.Select); ok {
					for i := range sel.States {
						texts = append(texts, ex.caseText(sel, i))
					}
					if !sel.Blocking {
						texts = append(texts, "default")
					}
				}
			}
		}
		check := func(label string) {
			for _, t := range texts {
				if strings.Contains(t, label) {
					return
				}
			}
			ex.errs = append(ex.errs, fmt.Sprintf("contract-binding: no select case of %s contains %q", fc.Key, label))
		}
		for label := range fc.Branches {
			check(label)
		}
		for label := range fc.RecvAssumes {
			check(label)
		}
	}
	st := &State{Frames: map[int]*Frame{}, Heaps: map[string]Term{}, Globals: map[*ssa.Global]Val{}, Tags: map[string]types.Type{}, Base: "H0", PendingBase: map[string]string{}}
	st.Top = ex.D.Const("top0", SInt)
	st.Assume(Ge(st.Top, IntT(0)))
	fr := ex.newFrame(st, fn)
	var args []Val
	for i, p := range fn.Params {
		v := ex.symbolic(st, "p:"+p.Name(), p.Type())
		fr.Regs[p] = v
		args = append(args, v)
		if i == 0 && fn.Signature.Recv() != nil {
			if t, ok := v.(Term); ok && kindOf(p.Type()) == KRef {
				st.Assume(Neq(t, IntT(0)))
			}
		}
	}
	for i, fv := range fn.FreeVars {
		_ = i
		// closures verified on their own: free variables are unknown cells
		t := deref(fv.Type())
		if kindOf(t) == KStruct {
			fr.Free = append(fr.Free, ex.symbolic(st, "fv:"+fv.Name(), fv.Type()))
		} else {
			r := ex.D.Fresh("fv:"+fv.Name(), SInt)
			fr.Free = append(fr.Free, AddrV{Loc{Kind: LHeap1, Heap: "box." + typeKey(t), Ref: r, Typ: t}})
		}
	}
	if fn.Name() == "init" && fn.Pkg != nil {
		// a package initialiser runs once: its guard variable is false on entry
		if g, ok := fn.Pkg.Members["init$guard"].(*ssa.Global); ok {
			st.Globals[g] = False
		}
	}
	var env *Env
	if fc != nil {
		var err error
		env, err = ex.contractEnv(st, nil, fc, fn.Signature, args)
		if err != nil {
			ex.errs = append(ex.errs, "contract-binding: "+err.Error())
			return
		}
	}
	ex.entry = st.Clone()
	ex.fenv = env
	if fc != nil {
		env.old = ex.entry
		if err := ex.bindLets(env, fc, ex.entry); err != nil {
			ex.errs = append(ex.errs, "contract-binding: "+fc.Key+": "+err.Error())
			return
		}
		for _, c := range fc.Requires {
			g, err := env.evalBool(c.E)
			if err != nil {
				ex.bindingError(c, err)
				continue
			}
			st.Assume(g)
		}
		for _, c := range fc.ObjInvs {
			g, err := env.evalBool(c.E)
			if err != nil {
				ex.bindingError(c, err)
				continue
			}
			st.Assume(g)
		}
		for _, c := range fc.Defines {
			g, err := env.evalBool(c.E)
			if err != nil {
				ex.bindingError(c, err)
				continue
			}
			// a definitional axiom is only relevant to queries that mention the function it defines:
			// attach it to that symbol (included on demand) instead of the path condition
			attached := false
			for _, t := range tokenRe.FindAllString(g.S, -1) {
				if _, ok := ex.ctx.specs.SMTFuns[t]; ok {
					ex.D.lines = append(ex.D.lines, declLine{t, "(assert " + g.S + ")"})
					attached = true
					break
				}
			}
			if !attached {
				st.Assume(g)
			}
			ex.assumed["definitional axiom in "+fc.Key+": "+c.Src] = true
		}
		ex.entry.PC = append([]Term(nil), st.PC...)
		ex.canary(st, "entry")
	}
	entryPC := len(st.PC)
	_ = entryPC
	ex.run(st, fr.ID, fn.Blocks[0], 0, nil, func(st *State, res []Val) {
		ex.retCount++
		if ex.disc != nil || fc == nil {
			return
		}
		ex.canary(st, "return")
		// and one per return statement: a return that no path can reach under the contract's assumptions (while the
		// function has it in its source) means the clauses checked there hold vacuously
		if ex.retSite != "" {
			dead := false
			for _, d := range fc.DeadReturns {
				if d == ex.retSite {
					dead = true
					ex.assumed["return statement '"+d+"' of "+fc.Key+" is declared unreachable under the contracts of its callees (an error branch those contracts exclude); no reachability canary there"] = true
				}
			}
			if !dead {
				ex.canary(st, "return@"+ex.retSite)
			}
		}
		renv := *env
		renv.bound = env.bound
		renv.vars = make(map[string]EV, len(env.vars)+4)
		for k, v := range env.vars {
			renv.vars[k] = v
		}
		renv.st = st
		ex.bindResults(&renv, fc, fn.Signature, res)
		for _, gs := range fc.GhostSets {
			locs, err := renv.modLocs(gs.LHS)
			if err != nil || len(locs) != 1 || locs[0].kind != LHeap1 {
				ex.errs = append(ex.errs, fmt.Sprintf("contract-binding: %s ghostset %s: target must be one ghost field (%v)", fc.Key, gs.Src, err))
				continue
			}
			v, err := renv.evalTerm(gs.RHS)
			if err != nil {
				ex.errs = append(ex.errs, fmt.Sprintf("contract-binding: %s ghostset %s: %v", fc.Key, gs.Src, err))
				continue
			}
			h := ex.heap(st, locs[0].heap, locs[0].sort)
			st.Heaps[locs[0].heap] = Store(h, locs[0].ref, v)
		}
		for _, c := range fc.Ensures {
			if c.Bounded {
				continue // decided by the bounded stand-in attached to the contract
			}
			g, err := renv.evalBool(c.E)
			if err != nil {
				ex.bindingError(c, err)
				continue
			}
			ex.obligeClause(st, "ensures", c.Label, c, g)
		}
		if !fc.ModAll {
			ex.frameCheck(st, &renv, fc)
		}
		if fc.Nonblock {
			for _, t := range st.Trace {
				if strings.HasPrefix(t, "blocking-") {
					ex.oblige(st, "effect", "nonblocking:"+t, fc.Props, False, "blocking operation in a function declared nonblocking")
				}
			}
		}
	})
}

// frameCheck: every pre-existing heap location outside the modifies clause is unchanged.
func (ex *Exec) frameCheck(st *State, env *Env, fc *FuncContract) {
	allowed := map[string][]modLoc{}
	whole := map[string]bool{}
	for i, m := range fc.Modifies {
		n := *env
		n.st = ex.entry
		locs, err := n.modLocs(m)
		if err != nil {
			ex.errs = append(ex.errs, fmt.Sprintf("contract-binding: %s modifies %s: %v", fc.Key, fc.ModSrc[i], err))
			continue
		}
		for _, l := range locs {
			if l.kind == LCell {
				whole[l.heap] = true
				continue
			}
			allowed[l.heap] = append(allowed[l.heap], l)
		}
	}
	var names []string
	for n := range st.Heaps {
		names = append(names, n)
	}
	sort.Strings(names)
	top0 := ex.entry.Top
	ex.batchN++
	defer func(from int) {
		for _, o := range ex.obls[from:] {
			if o.Result == nil && o.Kind == "frame" {
				o.Batch = ex.batchN
			}
		}
	}(len(ex.obls))
	for _, name := range names {
		cur := st.Heaps[name]
		old, ok := ex.entry.Heaps[name]
		if !ok {
			old = ex.heap(ex.entry, name, cur.Sort)
		}
		if cur.S == old.S || whole[name] || name == "ghost:atomic.Value.loads" {
			continue
		}
		if strings.HasPrefix(cur.Sort, "(Array") && onlyFreshStores(cur.S, old.S) {
			// every write went to an object allocated during this call: nothing that existed
			// before has changed (decided syntactically, no query)
			continue
		}
		var goal Term
		if !strings.HasPrefix(cur.Sort, "(Array") {
			goal = Eq(cur, old)
		} else {
			r := ex.D.Fresh("frame.r", SInt)
			conds := []Term{Le(App(SInt, "root", r), top0)}
			for _, l := range allowed[name] {
				if l.kind == LBase {
					conds = append(conds, Neq(App(SInt, "subbase", r), l.ref))
				} else {
					conds = append(conds, Neq(r, l.ref))
				}
			}
			goal = Implies(And(conds...), Eq(Select(cur, r), Select(old, r)))
		}
		ex.oblige(st, "frame", name, fc.Props, goal, "only the locations in the modifies clause change")
	}
}

// allocateFor: a callee that returns a freshly allocated object of type t has written that
// object's storage: the heap components that can hold it are unknown at the new object (and
// only there).
func (ex *Exec) allocateFor(st *State, res Val, t types.Type) {
	upd := func(name, sort string, ref Term, isRef bool) {
		if isRef {
			ex.markRef(name)
		}
		cur := ex.heap(st, name, sort)
		inner := strings.TrimSuffix(strings.TrimPrefix(sort, "(Array Int "), ")")
		st.Heaps[name] = Ite(Eq(ref, IntT(0)), cur, Store(cur, ref, ex.freshHeapVal(st, name, "new", inner)))
		ex.recordWrite(name, LHeap1, ref, sort)
	}
	switch u := t.Underlying().(type) {
	case *types.Slice:
		sv, ok := res.(SliceV)
		if !ok {
			return
		}
		if k := kindOf(u.Elem()); k != KStruct && k != KArray {
			for _, c := range leafComps(u.Elem()) {
				upd("[]"+typeKey(u.Elem())+c.Suffix, Arr2Sort(c.Sort), sv.Arr, isRefComp(u.Elem(), c))
			}
		}
	case *types.Pointer:
		r, ok := res.(Term)
		if !ok {
			return
		}
		for _, g := range ex.ctx.specs.Ghosts {
			for _, k := range ghostTypeKeys(u.Elem()) {
				if g.Type == k {
					if sort, ok := logicalSort(g.Sort); ok {
						upd("ghost:"+g.Type+"."+g.Name, ArrSort(sort), r, g.Sort == "ref")
					}
				}
			}
		}
		if stt := structOf(u.Elem()); stt != nil && isRepoType(u.Elem()) {
			for i := 0; i < stt.NumFields(); i++ {
				ft := stt.Field(i).Type()
				if k := kindOf(ft); k == KStruct || k == KArray {
					continue
				}
				for _, c := range leafComps(ft) {
					upd(typeKey(u.Elem())+"."+stt.Field(i).Name()+c.Suffix, ArrSort(c.Sort), r, isRefComp(ft, c))
				}
			}
		}
	case *types.Interface:
		iv, ok := res.(IfaceV)
		if !ok {
			return
		}
		for _, g := range ex.ctx.specs.Ghosts {
			if sort, ok := logicalSort(g.Sort); ok && (g.Type == typeKey(t) || g.Type == "io.Writer") {
				upd("ghost:"+g.Type+"."+g.Name, ArrSort(sort), iv.Ref, g.Sort == "ref")
			}
		}
		// a fresh value of a repository interface type is a fresh object of one of the implementing pointer
		// types: its fields are unknown (in particular they may hold references created since function entry --
		// without this the well-typed-heap axiom of the initial heap would bound them, and a postcondition such as
		// "the route stores the broker list it was given" would contradict it)
		if isRepoType(t) {
			for _, impl := range ex.ctx.implementers(u) {
				// *T implements it: the fresh object is a T; T (a struct value) implements it: the fresh box holds a T
				et := impl
				if pt, ok := impl.(*types.Pointer); ok {
					et = pt.Elem()
				}
				var alloc func(t types.Type)
				alloc = func(t types.Type) {
					stt := structOf(t)
					if stt == nil || !isRepoType(t) {
						return
					}
					for i := 0; i < stt.NumFields(); i++ {
						ft := stt.Field(i).Type()
						if k := kindOf(ft); k == KArray {
							continue
						} else if k == KStruct {
							if stt.Field(i).Embedded() {
								alloc(ft) // an embedded struct of a boxed value lives at the same reference
							}
							continue
						}
						for _, c := range leafComps(ft) {
							upd(typeKey(t)+"."+stt.Field(i).Name()+c.Suffix, ArrSort(c.Sort), iv.Ref, isRefComp(ft, c))
						}
					}
				}
				alloc(et)
			}
		}
	}
}

func isRepoType(t types.Type) bool {
	n := namedOf(t)
	return n != nil && n.Obj().Pkg() != nil && strings.HasPrefix(n.Obj().Pkg().Path(), repoModule)
}

// assumedLiterally: the goal is syntactically one of the conjuncts assumed on this path (groups
// are not searched: a conjunct must hold on every alternative, which the solver decides).
func (ex *Exec) assumedLiterally(st *State, goal Term) bool {
	for i := len(st.PC) - 1; i >= 0; i-- {
		a := st.PC[i].S
		if a == goal.S {
			return true
		}
		if strings.HasPrefix(a, "(and ") && strings.Contains(a, goal.S) {
			for _, c := range topConjuncts(a) {
				if c == goal.S {
					return true
				}
			}
		}
	}
	return false
}

func topConjuncts(s string) []string {
	var out []string
	var walk func(t string)
	walk = func(t string) {
		if !strings.HasPrefix(t, "(and ") {
			out = append(out, t)
			return
		}
		body := t[5 : len(t)-1]
		depth, start := 0, 0
		for i := 0; i <= len(body); i++ {
			if i == len(body) || (body[i] == ' ' && depth == 0) {
				if i > start {
					walk(body[start:i])
				}
				start = i + 1
				continue
			}
			if body[i] == '(' {
				depth++
			} else if body[i] == ')' {
				depth--
			}
		}
	}
	walk(s)
	return out
}

var allocOnlySymRe = regexp.MustCompile(`^(arr|box|chan|map|ref)![0-9]+$`)

// onlyFreshStores: cur is old with stores at allocation results only (symbols created by
// freshRef, each asserted greater than the watermark at its allocation, hence than top0).
func onlyFreshStores(cur, old string) bool {
	if !strings.HasPrefix(cur, "(store ") {
		return false
	}
	es := parseSExps(cur)
	if len(es) != 1 {
		return false
	}
	e := es[0]
	for {
		if e.String() == old {
			return true
		}
		if e.IsAtom() || e.head() != "store" || len(e.List) != 4 {
			return false
		}
		if !e.List[2].IsAtom() || !allocOnlySymRe.MatchString(e.List[2].Atom) {
			return false
		}
		e = e.List[1]
	}
}
