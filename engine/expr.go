package main

import (
	"fmt"
	"strings"
)

// Contract expression AST and parser (Gobra-flavoured, see DESIGN.md 3.5).

type Expr interface{}

type (
	EIdent struct{ Name string }
	EInt   struct{ V string }
	EStr   struct{ V string }
	EBool  struct{ V bool }
	ENil   struct{}
	EUnary struct {
		Op string
		X  Expr
	}
	EBinary struct {
		Op   string
		X, Y Expr
	}
	ECond struct{ C, A, B Expr }
	ECall struct {
		Fn   Expr
		Args []Expr
	}
	EIndex struct{ X, I Expr }
	ESlice struct {
		X      Expr
		Lo, Hi Expr // nil = open
		All    bool // x[..]
	}
	ESel struct {
		X    Expr
		Name string
	}
	EQuant struct {
		Forall bool
		Vars   []QVar
		Body   Expr
	}
	EOld struct{ X Expr }
)

type QVar struct{ Name, Type string }

type tok struct {
	k string // "id", "int", "str", "op", "eof"
	s string
}

func lexExpr(src string) ([]tok, error) {
	var out []tok
	i := 0
	ops := []string{"<==>", "==>", "::", ":=", "++", "&&", "||", "==", "!=", "<=", ">=", "..", "(", ")", "[", "]", "{", "}", ",", ":", "?", "+", "-", "*", "/", "%", "<", ">", "!", ".", "#", "&"}
	for i < len(src) {
		c := src[i]
		switch {
		case c == ' ' || c == '\t' || c == '\n':
			i++
		case c >= '0' && c <= '9':
			j := i
			for j < len(src) && (src[j] >= '0' && src[j] <= '9' || src[j] == 'x' || src[j] >= 'a' && src[j] <= 'f' && strings.HasPrefix(src[i:], "0x")) {
				j++
			}
			out = append(out, tok{"int", src[i:j]})
			i = j
		case c == '"':
			j := i + 1
			var b strings.Builder
			for j < len(src) && src[j] != '"' {
				if src[j] == '\\' && j+1 < len(src) {
					j++
					switch src[j] {
					case 'n':
						b.WriteByte('\n')
					case 't':
						b.WriteByte('\t')
					case 'r':
						b.WriteByte('\r')
					default:
						b.WriteByte(src[j])
					}
				} else {
					b.WriteByte(src[j])
				}
				j++
			}
			if j >= len(src) {
				return nil, fmt.Errorf("unterminated string in %q", src)
			}
			out = append(out, tok{"str", b.String()})
			i = j + 1
		case c == '\'':
			// char literal -> int
			if i+2 < len(src) && src[i+2] == '\'' {
				out = append(out, tok{"int", fmt.Sprintf("%d", src[i+1])})
				i += 3
			} else if i+3 < len(src) && src[i+1] == '\\' && src[i+3] == '\'' {
				ch := src[i+2]
				switch ch {
				case 'n':
					ch = '\n'
				case 't':
					ch = '\t'
				case 'r':
					ch = '\r'
				}
				out = append(out, tok{"int", fmt.Sprintf("%d", ch)})
				i += 4
			} else {
				return nil, fmt.Errorf("bad char literal in %q", src)
			}
		case c == '_' || c >= 'a' && c <= 'z' || c >= 'A' && c <= 'Z' || c == '#' || c == '$':
			j := i + 1
			for j < len(src) && (src[j] == '_' || src[j] >= 'a' && src[j] <= 'z' || src[j] >= 'A' && src[j] <= 'Z' || src[j] >= '0' && src[j] <= '9') {
				j++
			}
			out = append(out, tok{"id", src[i:j]})
			i = j
		default:
			matched := false
			for _, op := range ops {
				if strings.HasPrefix(src[i:], op) {
					out = append(out, tok{"op", op})
					i += len(op)
					matched = true
					break
				}
			}
			if !matched {
				return nil, fmt.Errorf("unexpected character %q in %q", c, src)
			}
		}
	}
	out = append(out, tok{"eof", ""})
	return out, nil
}

type parser struct {
	toks []tok
	p    int
	src  string
}

func ParseExpr(src string) (e Expr, err error) {
	toks, err := lexExpr(src)
	if err != nil {
		return nil, err
	}
	ps := &parser{toks: toks, src: src}
	defer func() {
		if r := recover(); r != nil {
			if pe, ok := r.(parseErr); ok {
				err = fmt.Errorf("%s in %q", string(pe), src)
				return
			}
			panic(r)
		}
	}()
	e = ps.expr()
	if ps.peek().k != "eof" {
		ps.fail("unexpected token " + ps.peek().s)
	}
	return e, nil
}

type parseErr string

func (ps *parser) fail(msg string) { panic(parseErr(msg)) }
func (ps *parser) peek() tok       { return ps.toks[ps.p] }
func (ps *parser) next() tok       { t := ps.toks[ps.p]; ps.p++; return t }
func (ps *parser) isOp(s string) bool {
	t := ps.peek()
	return t.k == "op" && t.s == s
}
func (ps *parser) accept(s string) bool {
	if ps.isOp(s) {
		ps.p++
		return true
	}
	return false
}
func (ps *parser) expect(s string) {
	if !ps.accept(s) {
		ps.fail("expected " + s + " got " + ps.peek().s)
	}
}

func (ps *parser) expr() Expr {
	t := ps.peek()
	if t.k == "id" && (t.s == "forall" || t.s == "exists") {
		ps.next()
		q := &EQuant{Forall: t.s == "forall"}
		for {
			name := ps.next()
			if name.k != "id" {
				ps.fail("quantifier variable expected")
			}
			typ := ps.typeName()
			q.Vars = append(q.Vars, QVar{name.s, typ})
			if !ps.accept(",") {
				break
			}
		}
		ps.expect("::")
		q.Body = ps.expr()
		return q
	}
	return ps.iff()
}

// typeName parses a (possibly qualified / pointer / slice) type name up to "," or "::".
func (ps *parser) typeName() string {
	var b strings.Builder
	for {
		t := ps.peek()
		if t.k == "eof" || t.k == "op" && (t.s == "," || t.s == "::") {
			break
		}
		b.WriteString(t.s)
		ps.next()
	}
	return b.String()
}

func (ps *parser) iff() Expr {
	x := ps.implies()
	for ps.accept("<==>") {
		y := ps.implies()
		x = &EBinary{"<==>", x, y}
	}
	return x
}

func (ps *parser) implies() Expr {
	x := ps.cond()
	if ps.accept("==>") {
		y := ps.implies()
		// allow a quantifier on the right of ==>
		return &EBinary{"==>", x, y}
	}
	return x
}

func (ps *parser) cond() Expr {
	c := ps.or()
	if ps.accept("?") {
		a := ps.cond()
		ps.expect(":")
		b := ps.cond()
		return &ECond{c, a, b}
	}
	return c
}

func (ps *parser) or() Expr {
	x := ps.and()
	for ps.accept("||") {
		x = &EBinary{"||", x, ps.and()}
	}
	return x
}

func (ps *parser) and() Expr {
	x := ps.cmp()
	for ps.accept("&&") {
		x = &EBinary{"&&", x, ps.cmp()}
	}
	return x
}

func (ps *parser) cmp() Expr {
	x := ps.addx()
	for {
		t := ps.peek()
		if t.k == "op" && (t.s == "==" || t.s == "!=" || t.s == "<" || t.s == "<=" || t.s == ">" || t.s == ">=") {
			ps.next()
			x = &EBinary{t.s, x, ps.addx()}
			continue
		}
		return x
	}
}

func (ps *parser) addx() Expr {
	x := ps.mul()
	for {
		t := ps.peek()
		if t.k == "op" && (t.s == "+" || t.s == "-" || t.s == "++") {
			ps.next()
			x = &EBinary{t.s, x, ps.mul()}
			continue
		}
		return x
	}
}

func (ps *parser) mul() Expr {
	x := ps.unary()
	for {
		t := ps.peek()
		if t.k == "op" && (t.s == "*" || t.s == "/" || t.s == "%") {
			ps.next()
			x = &EBinary{t.s, x, ps.unary()}
			continue
		}
		return x
	}
}

func (ps *parser) unary() Expr {
	if ps.accept("!") {
		return &EUnary{"!", ps.unary()}
	}
	if ps.accept("-") {
		return &EUnary{"-", ps.unary()}
	}
	if ps.accept("*") {
		return &EUnary{"*", ps.unary()}
	}
	if ps.accept("&") {
		return &EUnary{"&", ps.unary()}
	}
	return ps.postfix()
}

func (ps *parser) postfix() Expr {
	x := ps.primary()
	for {
		switch {
		case ps.accept("."):
			t := ps.next()
			if t.k != "id" {
				ps.fail("field name expected")
			}
			x = &ESel{x, t.s}
		case ps.accept("("):
			var args []Expr
			if !ps.accept(")") {
				for {
					args = append(args, ps.expr())
					if ps.accept(")") {
						break
					}
					ps.expect(",")
				}
			}
			x = &ECall{x, args}
		case ps.accept("["):
			if ps.accept("..") {
				ps.expect("]")
				x = &ESlice{X: x, All: true}
				continue
			}
			var lo, hi Expr
			if !ps.isOp(":") {
				lo = ps.expr()
			}
			if ps.accept(":") {
				if !ps.isOp("]") {
					hi = ps.expr()
				}
				ps.expect("]")
				x = &ESlice{X: x, Lo: lo, Hi: hi}
			} else {
				ps.expect("]")
				x = &EIndex{x, lo}
			}
		default:
			return x
		}
	}
}

func (ps *parser) primary() Expr {
	t := ps.next()
	switch t.k {
	case "int":
		return &EInt{t.s}
	case "str":
		return &EStr{t.s}
	case "id":
		switch t.s {
		case "true":
			return &EBool{true}
		case "false":
			return &EBool{false}
		case "nil":
			return &ENil{}
		case "old":
			ps.expect("(")
			e := ps.expr()
			ps.expect(")")
			return &EOld{e}
		}
		return &EIdent{t.s}
	case "op":
		if t.s == "(" {
			e := ps.expr()
			ps.expect(")")
			return e
		}
	}
	ps.fail("unexpected token " + t.s)
	return nil
}

// exprKey renders an expression as a deterministic string (used to key values remembered per expression).
func exprKey(e Expr) string {
	switch x := e.(type) {
	case nil:
		return "_"
	case *EIdent:
		return x.Name
	case *EInt:
		return x.V
	case *EStr:
		return fmt.Sprintf("%q", x.V)
	case *EBool:
		return fmt.Sprint(x.V)
	case *ENil:
		return "nil"
	case *EUnary:
		return "(" + x.Op + exprKey(x.X) + ")"
	case *EBinary:
		return "(" + exprKey(x.X) + x.Op + exprKey(x.Y) + ")"
	case *ECond:
		return "(" + exprKey(x.C) + "?" + exprKey(x.A) + ":" + exprKey(x.B) + ")"
	case *ECall:
		s := exprKey(x.Fn) + "("
		for i, a := range x.Args {
			if i > 0 {
				s += ","
			}
			s += exprKey(a)
		}
		return s + ")"
	case *EIndex:
		return exprKey(x.X) + "[" + exprKey(x.I) + "]"
	case *ESlice:
		if x.All {
			return exprKey(x.X) + "[..]"
		}
		return exprKey(x.X) + "[" + exprKey(x.Lo) + ":" + exprKey(x.Hi) + "]"
	case *ESel:
		return exprKey(x.X) + "." + x.Name
	case *EQuant:
		s := "exists"
		if x.Forall {
			s = "forall"
		}
		for _, v := range x.Vars {
			s += " " + v.Name + " " + v.Type
		}
		return "(" + s + "::" + exprKey(x.Body) + ")"
	case *EOld:
		return "old(" + exprKey(x.X) + ")"
	}
	return fmt.Sprintf("%T", e)
}

// walkExpr calls f on every node of e.
func walkExpr(e Expr, f func(Expr)) {
	if e == nil {
		return
	}
	f(e)
	switch x := e.(type) {
	case *EUnary:
		walkExpr(x.X, f)
	case *EBinary:
		walkExpr(x.X, f)
		walkExpr(x.Y, f)
	case *ECond:
		walkExpr(x.C, f)
		walkExpr(x.A, f)
		walkExpr(x.B, f)
	case *ECall:
		walkExpr(x.Fn, f)
		for _, a := range x.Args {
			walkExpr(a, f)
		}
	case *EIndex:
		walkExpr(x.X, f)
		walkExpr(x.I, f)
	case *ESlice:
		walkExpr(x.X, f)
		if x.Lo != nil {
			walkExpr(x.Lo, f)
		}
		if x.Hi != nil {
			walkExpr(x.Hi, f)
		}
	case *ESel:
		walkExpr(x.X, f)
	case *EQuant:
		walkExpr(x.Body, f)
	case *EOld:
		walkExpr(x.X, f)
	}
}
