package main

import (
	"fmt"
	"go/constant"
	"go/token"
	"go/types"
	"math/big"
	"os"
	"sort"
	"strings"
	"sync"

	"golang.org/x/tools/go/ssa"
)

type Cont func(st *State, results []Val)

const maxPaths = 60000

func (ex *Exec) newFrame(st *State, fn *ssa.Function) *Frame {
	ex.frameSeq++
	fr := &Frame{ID: ex.frameSeq, Fn: fn, Regs: map[ssa.Value]Val{}, Cells: map[*ssa.Alloc]Val{}}
	st.Frames[fr.ID] = fr
	return fr
}

func (ex *Exec) pos(instr ssa.Instruction) string {
	if instr == nil || ex.ctx == nil || ex.ctx.prog == nil {
		return ""
	}
	p := instr.Pos()
	if !p.IsValid() {
		return ""
	}
	ps := ex.ctx.prog.Fset.Position(p)
	f := ps.Filename
	if i := strings.Index(f, "/repo/"); i >= 0 {
		f = f[i+6:]
	}
	return fmt.Sprintf("%s:%d", f, ps.Line)
}

// val evaluates an SSA operand.
func (ex *Exec) val(st *State, fr *Frame, v ssa.Value) Val {
	switch x := v.(type) {
	case *ssa.Const:
		return ex.constVal(st, x)
	case *ssa.Global:
		return ex.globalAddr(x)
	case *ssa.Function:
		return &ClosureV{Fn: x}
	case *ssa.FreeVar:
		for i, fv := range fr.Fn.FreeVars {
			if fv == x {
				if i < len(fr.Free) {
					return fr.Free[i]
				}
			}
		}
		ex.unsupported("free variable %s unbound", x.Name())
		return IntT(0)
	case *ssa.Builtin:
		return x
	}
	if r, ok := fr.Regs[v]; ok {
		return r
	}
	ex.unsupported("use of undefined SSA value %s (%T) in %s", v.Name(), v, fr.Fn.Name())
	return ex.symbolic(st, "undef", v.Type())
}

func (ex *Exec) globalAddr(g *ssa.Global) Val {
	t := deref(g.Type())
	if kindOf(t) == KStruct {
		return ex.D.Const("G:"+g.Pkg.Pkg.Name()+"."+g.Name(), SInt)
	}
	return AddrV{Loc{Kind: LGlobal, Global: g, Typ: t}}
}

func (ex *Exec) bytesLit(s string) Term {
	if t, ok := ex.litSeen[s]; ok {
		return t
	}
	var t Term
	if s == "" {
		t = Term{"bempty", SBytes}
	} else {
		t = Term{"(blit " + smtString(s) + ")", SBytes}
	}
	ex.litSeen[s] = t
	return t
}

// smtString renders a Go string as an SMT-LIB string literal.
func smtString(s string) string {
	var b strings.Builder
	b.WriteByte('"')
	for i := 0; i < len(s); i++ {
		c := s[i]
		switch {
		case c == '"':
			b.WriteString(`""`)
		case c >= 32 && c < 127 && c != '\\':
			b.WriteByte(c)
		default:
			fmt.Fprintf(&b, "\\u{%x}", c)
		}
	}
	b.WriteByte('"')
	return b.String()
}

func (ex *Exec) constVal(st *State, c *ssa.Const) Val {
	t := c.Type()
	if c.Value == nil {
		return ex.zeroVal(st, t)
	}
	switch kindOf(t) {
	case KBool:
		if constant.BoolVal(c.Value) {
			return True
		}
		return False
	case KInt:
		if v, ok := constant.Val(constant.ToInt(c.Value)).(*big.Int); ok {
			return BigT(v)
		}
		if i, ok := constant.Int64Val(constant.ToInt(c.Value)); ok {
			return IntT(i)
		}
		u, _ := constant.Uint64Val(constant.ToInt(c.Value))
		return BigT(new(big.Int).SetUint64(u))
	case KString:
		return ex.bytesLit(constant.StringVal(c.Value))
	case KFloat:
		return ex.floatLit(c.Value)
	}
	ex.unsupported("constant of type %s", t)
	return ex.symbolic(st, "const", t)
}

func (ex *Exec) floatLit(v constant.Value) Term {
	if i, ok := constant.Int64Val(constant.ToInt(v)); ok && constant.Compare(constant.ToInt(v), token.EQL, v) {
		if i == 0 {
			return Term{"f64zero", SF64}
		}
		return App(SF64, "f64ofint", IntT(i))
	}
	s := v.ExactString()
	return ex.D.Const("f64lit:"+s, SF64)
}

// addrLoc turns a pointer value into the location it designates.
func (ex *Exec) addrLoc(st *State, p Val, pointee types.Type, instr ssa.Instruction) (Loc, bool) {
	switch a := p.(type) {
	case AddrV:
		return a.L, true
	case Term:
		ex.checkNonNil(st, a, instr, "nil pointer dereference")
		switch kindOf(pointee) {
		case KStruct:
			return Loc{Kind: LStruct, Ref: a, Typ: pointee}, true
		case KArray:
			ex.unsupported("whole-array access through pointer")
			return Loc{}, false
		}
		return Loc{Kind: LHeap1, Heap: "box." + typeKey(pointee), Ref: a, Typ: pointee}, true
	}
	ex.unsupported("dereference of %T", p)
	return Loc{}, false
}

var srcCache = map[string][]string{}
var srcMu sync.Mutex

// srcLine returns the trimmed source text of the line an instruction comes from; obligation
// labels use it instead of a line number so that they survive edits elsewhere in the file.
func (ex *Exec) srcLine(instr ssa.Instruction) string {
	if instr == nil || !instr.Pos().IsValid() {
		return "?"
	}
	ps := ex.ctx.prog.Fset.Position(instr.Pos())
	srcMu.Lock()
	lines, ok := srcCache[ps.Filename]
	if !ok {
		data, _ := os.ReadFile(ps.Filename)
		lines = strings.Split(string(data), "\n")
		srcCache[ps.Filename] = lines
	}
	srcMu.Unlock()
	if ps.Line-1 < len(lines) && ps.Line >= 1 {
		t := strings.Join(strings.Fields(lines[ps.Line-1]), " ")
		if len(t) > 70 {
			t = t[:70]
		}
		return t
	}
	return "?"
}

// ---- safety obligations ---------------------------------------------------------------

func (ex *Exec) safe(st *State, cond Term, instr ssa.Instruction, what string) {
	if cond.IsTrue() {
		return
	}
	if ex.safety && ex.disc == nil {
		ex.oblige(st, "safety", what+" @ "+ex.srcLine(instr), ex.safetyProps(), cond, what)
	}
	st.Assume(cond)
}

func (ex *Exec) checkNonNil(st *State, p Term, instr ssa.Instruction, what string) {
	if strings.HasPrefix(p.S, "ref!") || strings.HasPrefix(p.S, "arr!") || strings.HasPrefix(p.S, "(sub.") || strings.HasPrefix(p.S, "(elem.") || strings.HasPrefix(p.S, "(mapelem.") || strings.HasPrefix(p.S, "G.") || strings.HasPrefix(p.S, "box!") || strings.HasPrefix(p.S, "map!") || strings.HasPrefix(p.S, "chan!") {
		return
	}
	ex.safe(st, Neq(p, IntT(0)), instr, what)
}

// ---- main loop ---------------------------------------------------------------------------

func (ex *Exec) run(st *State, frID int, b *ssa.BasicBlock, idx int, prev *ssa.BasicBlock, k Cont) {
	for i := idx; i < len(b.Instrs); i++ {
		if len(ex.errs) > 20 {
			return
		}
		instr := b.Instrs[i]
		fr := st.Frames[frID]
		ex.curPos = ex.pos(instr)
		if ex.skipSet(fr.Fn)[instr] {
			continue
		}
		switch in := instr.(type) {
		case *ssa.If:
			c, _ := ex.val(st, fr, in.Cond).(Term)
			tb, fb := b.Succs[0], b.Succs[1]
			if c.IsTrue() {
				ex.jump(st, frID, b, tb, k)
				return
			}
			if c.IsFalse() {
				ex.jump(st, frID, b, fb, k)
				return
			}
			st2 := st.Clone()
			st.Assume(c)
			ex.jump(st, frID, b, tb, k)
			st2.Assume(Not(c))
			ex.jump(st2, frID, b, fb, k)
			return
		case *ssa.Jump:
			ex.jump(st, frID, b, b.Succs[0], k)
			return
		case *ssa.Return:
			res := make([]Val, len(in.Results))
			for j, r := range in.Results {
				res[j] = ex.val(st, fr, r)
			}
			if fr.Fn == ex.fn {
				// which return statement of the function under verification this is (text of its source line)
				ex.retSite = ex.retLabel(in)
			}
			k(st, res)
			return
		case *ssa.Panic:
			if ex.disc == nil {
				if ex.safety {
					ex.oblige(st, "safety", "explicit panic @ "+ex.srcLine(in), ex.safetyProps(), False, "explicit panic reachable")
				}
			}
			return
		case *ssa.Call:
			ex.call(st, frID, in, in.Common(), func(st *State, res []Val) {
				fr := st.Frames[frID]
				if len(res) == 1 {
					fr.Regs[in] = res[0]
				} else if len(res) > 1 {
					fr.Regs[in] = TupleV(res)
				}
				ex.run(st, frID, b, i+1, prev, k)
			})
			return
		case *ssa.Select:
			ex.selectInstr(st, frID, in, func(st *State, v Val) {
				st.Frames[frID].Regs[in] = v
				ex.run(st, frID, b, i+1, prev, k)
			})
			return
		case *ssa.RunDefers:
			ex.runDefers(st, frID, func(st *State) {
				ex.run(st, frID, b, i+1, prev, k)
			})
			return
		default:
			ex.step(st, fr, instr, prev)
		}
	}
}

// knownFalse is a cheap syntactic check: the negation of c is literally in the path condition.
func (ex *Exec) knownFalse(st *State, c Term) bool {
	n := Not(c)
	for i := len(st.PC) - 1; i >= 0 && i >= len(st.PC)-40; i-- {
		if st.PC[i].S == n.S {
			return true
		}
	}
	return false
}

func (ex *Exec) jump(st *State, frID int, from, to *ssa.BasicBlock, k Cont) {
	ex.paths++
	if ex.pathCap > 0 && ex.paths > ex.pathCap {
		ex.capHit = true
		return
	}
	if ex.paths > maxPaths {
		ex.unsupported("too many paths in %s", ex.fn.Name())
		return
	}
	fr := st.Frames[frID]
	loops := ex.ctx.loopsOf(fr.Fn)
	if d := ex.disc; d != nil && d.frameID == frID {
		if to == d.loop.Header && d.loop.Blocks[from] {
			return // back edge of the loop being explored
		}
		if !d.loop.Blocks[to] {
			return // leaves the loop
		}
	}
	if lp, ok := loops[to]; ok {
		if lp.Blocks[from] && to.Dominates(from) {
			ex.loopBackEdge(st, frID, lp)
			return
		}
		ex.loopEnter(st, frID, lp, from, k)
		return
	}
	key, dup := ex.memoArrive(st, frID, to, from)
	if dup {
		return
	}
	ex.run(st, frID, to, 0, from, k)
	ex.memoDone(key)
}

// step executes one non-branching instruction.
func (ex *Exec) step(st *State, fr *Frame, instr ssa.Instruction, prev *ssa.BasicBlock) {
	switch in := instr.(type) {
	case *ssa.Alloc:
		t := deref(in.Type())
		switch kindOf(t) {
		case KStruct:
			if !structEscapes(in) {
				// a struct local whose address never leaves the function: kept as a value
				fr.Cells[in] = ex.zeroVal(st, t)
				fr.Regs[in] = AddrV{Loc{Kind: LCell, Frame: fr.ID, Alloc: in, Typ: t}}
				return
			}
			fr.Regs[in] = ex.newStruct(st, t)
		case KArray:
			fr.Regs[in] = ex.newArray(st, t.Underlying().(*types.Array).Elem(), true)
		default:
			fr.Cells[in] = ex.zeroVal(st, t)
			fr.Regs[in] = AddrV{Loc{Kind: LCell, Frame: fr.ID, Alloc: in, Typ: t}}
		}
	case *ssa.Store:
		addr := ex.val(st, fr, in.Addr)
		v := ex.val(st, fr, in.Val)
		pt := deref(in.Addr.Type())
		if kindOf(pt) == KArray {
			// array value copy into an array variable
			dst, ok1 := addr.(Term)
			src, ok2 := v.(Term)
			if ok1 && ok2 {
				ex.copyArray(st, pt.Underlying().(*types.Array).Elem(), dst, src)
			} else {
				ex.unsupported("array store")
			}
			return
		}
		l, ok := ex.addrLoc(st, addr, pt, in)
		if ok {
			ex.storeLoc(st, l, v)
		}
	case *ssa.UnOp:
		fr.Regs[in] = ex.unop(st, fr, in)
	case *ssa.BinOp:
		fr.Regs[in] = ex.binop(st, in.Op, ex.val(st, fr, in.X), ex.val(st, fr, in.Y), in.X.Type(), in.Type(), in)
	case *ssa.FieldAddr:
		base := ex.val(st, fr, in.X)
		if a, isAddr := base.(AddrV); isAddr && (a.L.Kind == LCell || a.L.Kind == LCellPath) {
			stt := structOf(deref(in.X.Type()))
			path := append(append([]int(nil), a.L.Path...), in.Field)
			fr.Regs[in] = AddrV{Loc{Kind: LCellPath, Frame: a.L.Frame, Alloc: a.L.Alloc, Typ: stt.Field(in.Field).Type(), Path: path}}
			return
		}
		bt, ok := base.(Term)
		if !ok {
			ex.unsupported("FieldAddr on %T", base)
			fr.Regs[in] = IntT(0)
			return
		}
		ex.checkNonNil(st, bt, in, "nil pointer dereference")
		st0 := deref(in.X.Type())
		l, _ := ex.fieldLoc(st0, bt, in.Field)
		ft := structOf(st0).Field(in.Field).Type()
		switch {
		case l.Kind == LStruct:
			fr.Regs[in] = l.Ref
		case kindOf(ft) == KArray:
			fr.Regs[in] = ex.subRef(typeKey(st0)+"."+structOf(st0).Field(in.Field).Name(), bt)
		default:
			fr.Regs[in] = AddrV{l}
		}
	case *ssa.Field:
		sv, ok := ex.val(st, fr, in.X).(*StructV)
		if !ok {
			ex.unsupported("Field on non-struct value")
			fr.Regs[in] = ex.symbolic(st, "field", in.Type())
			return
		}
		fr.Regs[in] = sv.F[in.Field]
	case *ssa.IndexAddr:
		ex.indexAddr(st, fr, in)
	case *ssa.Index:
		// array value indexing
		arr, ok := ex.val(st, fr, in.X).(Term)
		idx, _ := ex.val(st, fr, in.Index).(Term)
		if ok && kindOf(in.X.Type()) == KString {
			ex.safe(st, And(Le(IntT(0), idx), Lt(idx, App(SInt, "blen", arr))), in, "index out of range")
			r := App(SInt, "bat", arr, idx)
			st.Assume(And(Le(IntT(0), r), Lt(r, IntT(256))))
			fr.Regs[in] = r
			return
		}
		at, isArr := in.X.Type().Underlying().(*types.Array)
		if !ok || !isArr {
			ex.unsupported("Index on %s", in.X.Type())
			fr.Regs[in] = ex.symbolic(st, "idx", in.Type())
			return
		}
		ex.safe(st, And(Le(IntT(0), idx), Lt(idx, IntT(at.Len()))), in, "index out of range")
		fr.Regs[in] = ex.loadLoc(st, ex.elemLoc(at.Elem(), arr, idx))
	case *ssa.Slice:
		fr.Regs[in] = ex.sliceOp(st, fr, in)
	case *ssa.Lookup:
		fr.Regs[in] = ex.lookup(st, fr, in)
	case *ssa.MapUpdate:
		ex.mapUpdate(st, fr, in)
	case *ssa.MakeSlice:
		l, _ := ex.val(st, fr, in.Len).(Term)
		c, _ := ex.val(st, fr, in.Cap).(Term)
		ex.safe(st, And(Le(IntT(0), l), Le(l, c)), in, "makeslice: len out of range")
		arr := ex.newArray(st, in.Type().Underlying().(*types.Slice).Elem(), true)
		fr.Regs[in] = SliceV{arr, IntT(0), l, c}
	case *ssa.MakeMap:
		m := ex.freshRef(st, "map")
		ex.initMap(st, in.Type(), m)
		fr.Regs[in] = m
	case *ssa.MakeChan:
		c := ex.freshRef(st, "chan")
		sz, _ := ex.val(st, fr, in.Size).(Term)
		ex.safe(st, Le(IntT(0), sz), in, "makechan: size out of range")
		ex.initChan(st, c, sz, in.Type().Underlying().(*types.Chan).Elem())
		fr.Regs[in] = c
	case *ssa.MakeClosure:
		bind := make([]Val, len(in.Bindings))
		for j, bv := range in.Bindings {
			bind[j] = ex.val(st, fr, bv)
		}
		fr.Regs[in] = &ClosureV{Fn: in.Fn.(*ssa.Function), Bind: bind}
	case *ssa.MakeInterface:
		fr.Regs[in] = ex.makeIface(st, ex.val(st, fr, in.X), in.X.Type())
	case *ssa.ChangeInterface:
		fr.Regs[in] = ex.val(st, fr, in.X)
	case *ssa.ChangeType:
		fr.Regs[in] = ex.val(st, fr, in.X)
	case *ssa.Convert:
		fr.Regs[in] = ex.convert(st, ex.val(st, fr, in.X), in.X.Type(), in.Type(), in)
	case *ssa.TypeAssert:
		fr.Regs[in] = ex.typeAssert(st, in, ex.val(st, fr, in.X))
	case *ssa.Extract:
		tv, ok := ex.val(st, fr, in.Tuple).(TupleV)
		if !ok || in.Index >= len(tv) {
			ex.unsupported("extract from non-tuple")
			fr.Regs[in] = ex.symbolic(st, "extract", in.Type())
			return
		}
		fr.Regs[in] = tv[in.Index]
	case *ssa.Phi:
		for j, p := range in.Block().Preds {
			if p == prev {
				fr.Regs[in] = ex.val(st, fr, in.Edges[j])
				return
			}
		}
		ex.unsupported("phi without matching predecessor")
	case *ssa.Range:
		ex.rangeInit(st, fr, in)
	case *ssa.Next:
		ex.rangeNext(st, fr, in)
	case *ssa.Send:
		ch, _ := ex.val(st, fr, in.Chan).(Term)
		sv := ex.val(st, fr, in.X)
		if g, md, ok := ex.chanInv(st, in.Chan, sv, in.X.Type()); ok && ex.disc == nil {
			ex.oblige(st, "chan-invariant", chanFieldKey(in.Chan), nil, g, md.Src)
		}
		ex.chanSend(st, ch, sv, in.X.Type(), in, true)
	case *ssa.Go:
		ex.goStmt(st, fr, in)
	case *ssa.Defer:
		d := deferred{call: in.Common(), instr: in}
		if !in.Call.IsInvoke() {
			d.fnVal = ex.val(st, fr, in.Call.Value)
		} else {
			d.fnVal = ex.val(st, fr, in.Call.Value)
		}
		for _, a := range in.Call.Args {
			d.args = append(d.args, ex.val(st, fr, a))
		}
		fr.Defer = append(fr.Defer, d)
	case *ssa.DebugRef:
	default:
		ex.unsupported("instruction %T", instr)
	}
}

func (ex *Exec) copyArray(st *State, elem types.Type, dst, src Term) {
	if kindOf(elem) == KStruct || kindOf(elem) == KArray {
		ex.unsupported("copy of array of structs")
		return
	}
	for _, c := range leafComps(elem) {
		name := "[]" + typeKey(elem) + c.Suffix
		h := ex.heap(st, name, Arr2Sort(c.Sort))
		st.Heaps[name] = Store(h, dst, Select(h, src))
		ex.recordWrite(name, LHeap2, dst, Arr2Sort(c.Sort))
	}
}

func (ex *Exec) unop(st *State, fr *Frame, in *ssa.UnOp) Val {
	x := ex.val(st, fr, in.X)
	switch in.Op {
	case token.MUL:
		pt := deref(in.X.Type())
		if kindOf(pt) == KArray {
			if t, ok := x.(Term); ok {
				return t // array values are represented by their backing reference
			}
		}
		l, ok := ex.addrLoc(st, x, pt, in)
		if !ok {
			return ex.symbolic(st, "load", in.Type())
		}
		if l.Kind == LGlobal {
			ex.checkGuard(st, l.Global, in)
		}
		v := ex.loadLoc(st, l)
		if l.Kind == LHeap1 || l.Kind == LHeap2 || l.Kind == LStruct {
			ex.assumeTyped(st, v, in.Type())
		}
		return v
	case token.NOT:
		return Not(x.(Term))
	case token.SUB:
		t := x.(Term)
		if t.Sort == SF64 {
			return App(SF64, "fneg", t)
		}
		return ex.wrap(Sub(IntT(0), t), in.Type())
	case token.XOR:
		return App(SInt, "gbvnot"+fmt.Sprint(intBits(in.Type())), x.(Term))
	case token.ARROW:
		ch, _ := x.(Term)
		et := in.X.Type().Underlying().(*types.Chan).Elem()
		rv := ex.chanRecv(st, ch, et, in.CommaOk, in)
		if !in.CommaOk {
			if g, _, ok := ex.chanInv(st, in.X, rv, et); ok {
				st.Assume(g)
			}
		}
		return rv
	}
	ex.unsupported("unary operator %s", in.Op)
	return ex.symbolic(st, "unop", in.Type())
}

// wrap applies modular wrap-around for unsigned types (Go semantics of unsigned
// subtraction and narrowing); signed results are left mathematical (assumption).
func (ex *Exec) wrap(t Term, typ types.Type) Term {
	if !isUnsigned(typ) {
		return t
	}
	if n, ok := t.numeral(); ok {
		m := pow2(intBits(typ))
		r := new(big.Int).Mod(n, m)
		return BigT(r)
	}
	return App(SInt, "mod", t, BigT(pow2(intBits(typ))))
}

func (ex *Exec) binop(st *State, op token.Token, xv, yv Val, xt, rt types.Type, instr ssa.Instruction) Val {
	switch kindOf(xt) {
	case KInt:
		x, y := xv.(Term), yv.(Term)
		switch op {
		case token.ADD:
			return Add(x, y)
		case token.SUB:
			if isUnsigned(xt) {
				d := Sub(x, y)
				if _, ok := d.numeral(); ok {
					return ex.wrap(d, xt)
				}
				return Ite(Ge(x, y), d, Add(d, BigT(pow2(intBits(xt)))))
			}
			return Sub(x, y)
		case token.MUL:
			// multiplication by a large constant (unit conversions such as n*time.Second) is the one
			// place where 64-bit overflow is modelled exactly: the product wraps like the machine's
			if !isUnsigned(xt) && intBits(xt) == 64 {
				_, xn := x.numeral()
				cy, yn := y.numeral()
				cx, _ := x.numeral()
				if xn != yn {
					c := cy
					if xn {
						c = cx
					}
					if c != nil && new(big.Int).Abs(c).Cmp(big.NewInt(65536)) >= 0 {
						return wrapMul64(x, y)
					}
				}
			}
			return Mul(x, y)
		case token.QUO:
			ex.safe(st, Neq(y, IntT(0)), instr, "integer divide by zero")
			return ex.goDiv(x, y, isUnsigned(xt))
		case token.REM:
			ex.safe(st, Neq(y, IntT(0)), instr, "integer divide by zero")
			if isUnsigned(xt) {
				return App(SInt, "mod", x, y)
			}
			return Sub(x, Mul(y, ex.goDiv(x, y, false)))
		case token.EQL:
			return Eq(x, y)
		case token.NEQ:
			return Neq(x, y)
		case token.LSS:
			return Lt(x, y)
		case token.LEQ:
			return Le(x, y)
		case token.GTR:
			return Gt(x, y)
		case token.GEQ:
			return Ge(x, y)
		case token.SHL:
			if n, ok := y.numeral(); ok && n.IsInt64() && n.Int64() < 64 {
				r := Mul(x, BigT(pow2(uint(n.Int64()))))
				return ex.wrap(r, xt)
			}
			return App(SInt, "gbvshl", x, y)
		case token.SHR:
			if n, ok := y.numeral(); ok && n.IsInt64() && n.Int64() < 64 && isUnsigned(xt) {
				return App(SInt, "div", x, BigT(pow2(uint(n.Int64()))))
			}
			return App(SInt, "gbvshr", x, y)
		case token.AND:
			return App(SInt, "gbvand", x, y)
		case token.OR:
			return App(SInt, "gbvor", x, y)
		case token.XOR:
			return App(SInt, "gbvxor", x, y)
		case token.AND_NOT:
			return App(SInt, "gbvandnot", x, y)
		}
	case KBool:
		x, y := xv.(Term), yv.(Term)
		switch op {
		case token.EQL:
			return Eq(x, y)
		case token.NEQ:
			return Neq(x, y)
		}
	case KString:
		x, y := xv.(Term), yv.(Term)
		switch op {
		case token.ADD:
			if x.S == "bempty" {
				return y
			}
			if y.S == "bempty" {
				return x
			}
			return App(SBytes, "bconcat", x, y)
		case token.EQL:
			return Eq(x, y)
		case token.NEQ:
			return Neq(x, y)
		case token.LSS:
			return App(SBool, "blt", x, y)
		case token.GTR:
			return App(SBool, "blt", y, x)
		case token.LEQ:
			return Not(App(SBool, "blt", y, x))
		case token.GEQ:
			return Not(App(SBool, "blt", x, y))
		}
	case KFloat:
		x, y := xv.(Term), yv.(Term)
		switch op {
		case token.ADD:
			return App(SF64, "fadd", x, y)
		case token.SUB:
			return App(SF64, "fsub", x, y)
		case token.MUL:
			return App(SF64, "fmul", x, y)
		case token.QUO:
			return App(SF64, "fdiv", x, y)
		case token.EQL:
			return App(SBool, "feq", x, y)
		case token.NEQ:
			return Not(App(SBool, "feq", x, y))
		case token.LSS:
			return App(SBool, "flt", x, y)
		case token.GTR:
			return App(SBool, "flt", y, x)
		case token.LEQ:
			return App(SBool, "fle", x, y)
		case token.GEQ:
			return App(SBool, "fle", y, x)
		}
	case KRef:
		x, ok1 := xv.(Term)
		y, ok2 := yv.(Term)
		if !ok1 {
			if c, isC := xv.(*ClosureV); isC {
				x, ok1 = ex.closureRef(c), true
			}
		}
		if !ok2 {
			if c, isC := yv.(*ClosureV); isC {
				y, ok2 = ex.closureRef(c), true
			}
		}
		if ok1 && ok2 {
			switch op {
			case token.EQL:
				return Eq(x, y)
			case token.NEQ:
				return Neq(x, y)
			}
		}
	case KSlice:
		// only comparison with nil is legal
		s, ok := xv.(SliceV)
		if !ok {
			s, ok = yv.(SliceV)
		}
		if ok {
			if op == token.EQL {
				return Eq(s.Arr, IntT(0))
			}
			return Neq(s.Arr, IntT(0))
		}
		if op == token.EQL {
			return True
		}
		return False
	case KIface:
		a := ex.coerce(xv, xt).(IfaceV)
		b := ex.coerce(yv, xt).(IfaceV)
		// Interface values are equal when their dynamic types are identical and the dynamic values are
		// equal. Pointer-shaped dynamic values (even type ids) are the reference itself. Other dynamic
		// values live in a box: when one operand is a conversion of a scalar right here (v == "x") the
		// contents are compared; otherwise equal boxes are equal and distinct boxes are undetermined.
		var e Term
		if t := scalarMakeIface(instr); t != nil {
			ca, cb := ex.unbox(st, a, t), ex.unbox(st, b, t)
			e = And(Eq(a.Tag, b.Tag), Eq(a.Tag, IntT(int64(ex.ctx.typeID(t)))), ex.binop(st, token.EQL, ca, cb, t, rt, instr).(Term))
		} else if isNilIface(a) || isNilIface(b) {
			e = And(Eq(a.Tag, b.Tag), Eq(a.Ref, b.Ref))
		} else {
			u := App(SBool, ex.D.Fun("boxeq", []string{SInt, SInt, SInt}, SBool), a.Tag, a.Ref, b.Ref)
			e = And(Eq(a.Tag, b.Tag), Or(Eq(a.Ref, b.Ref), And(Eq(App(SInt, "mod", a.Tag, IntT(2)), IntT(1)), u)))
		}
		if op == token.EQL {
			return e
		}
		return Not(e)
	case KStruct:
		a, ok1 := xv.(*StructV)
		b, ok2 := yv.(*StructV)
		if ok1 && ok2 {
			e := ex.structEq(a, b)
			if op == token.EQL {
				return e
			}
			return Not(e)
		}
	}
	ex.unsupported("binary operator %s on %s", op, xt)
	return ex.symbolic(st, "binop", rt)
}

// scalarMakeIface: the comparison's operand that is a conversion of a string, integer, boolean or
// float to an interface, if any.
func scalarMakeIface(instr ssa.Instruction) types.Type {
	b, ok := instr.(*ssa.BinOp)
	if !ok {
		return nil
	}
	for _, o := range []ssa.Value{b.X, b.Y} {
		if mi, ok := o.(*ssa.MakeInterface); ok {
			switch kindOf(mi.X.Type()) {
			case KString, KInt, KBool, KFloat:
				return mi.X.Type()
			}
		}
	}
	return nil
}

func isNilIface(v IfaceV) bool {
	n, ok := v.Tag.numeral()
	return ok && n.Sign() == 0
}

func (ex *Exec) structEq(a, b *StructV) Term {
	var cs []Term
	for i := range a.F {
		switch x := a.F[i].(type) {
		case *StructV:
			cs = append(cs, ex.structEq(x, b.F[i].(*StructV)))
		default:
			fa, fb := flatten(ex.coerce(a.F[i], a.T.Field(i).Type())), flatten(ex.coerce(b.F[i], a.T.Field(i).Type()))
			for j := range fa {
				cs = append(cs, Eq(fa[j], fb[j]))
			}
		}
	}
	return And(cs...)
}

// goDiv is Go's truncated division expressed with SMT floor division.
func (ex *Exec) goDiv(x, y Term, unsigned bool) Term {
	if unsigned {
		return App(SInt, "div", x, y)
	}
	if n, ok := y.numeral(); ok && n.Sign() > 0 {
		if m, ok := x.numeral(); ok {
			return BigT(new(big.Int).Quo(m, n))
		}
		return Ite(Ge(x, IntT(0)), App(SInt, "div", x, y), Sub(IntT(0), App(SInt, "div", Sub(IntT(0), x), y)))
	}
	// general: sign(x)*sign(y) * (|x| div |y|)
	ax := App(SInt, "abs", x)
	ay := App(SInt, "abs", y)
	q := App(SInt, "div", ax, ay)
	return Ite(Eq(Ge(x, IntT(0)), Ge(y, IntT(0))), q, Sub(IntT(0), q))
}

func (ex *Exec) indexAddr(st *State, fr *Frame, in *ssa.IndexAddr) {
	base := ex.val(st, fr, in.X)
	idx, _ := ex.val(st, fr, in.Index).(Term)
	switch xt := in.X.Type().Underlying().(type) {
	case *types.Slice:
		s, ok := base.(SliceV)
		if !ok {
			s = ex.coerce(base, in.X.Type()).(SliceV)
		}
		ex.safe(st, And(Le(IntT(0), idx), Lt(idx, s.Len)), in, "index out of range")
		l := ex.elemLoc(xt.Elem(), s.Arr, Ix(s.Off, idx))
		ex.setAddrReg(fr, in, l, xt.Elem())
	case *types.Pointer:
		at := xt.Elem().Underlying().(*types.Array)
		arr, ok := base.(Term)
		if !ok {
			ex.unsupported("IndexAddr on %T", base)
			fr.Regs[in] = IntT(0)
			return
		}
		ex.safe(st, And(Le(IntT(0), idx), Lt(idx, IntT(at.Len()))), in, "index out of range")
		l := ex.elemLoc(at.Elem(), arr, idx)
		ex.setAddrReg(fr, in, l, at.Elem())
	default:
		ex.unsupported("IndexAddr on %s", in.X.Type())
	}
}

func (ex *Exec) setAddrReg(fr *Frame, v ssa.Value, l Loc, elem types.Type) {
	if l.Kind == LStruct {
		fr.Regs[v] = l.Ref
	} else if kindOf(elem) == KArray {
		ex.unsupported("array of arrays")
		fr.Regs[v] = IntT(0)
	} else {
		fr.Regs[v] = AddrV{l}
	}
}

func (ex *Exec) sliceOp(st *State, fr *Frame, in *ssa.Slice) Val {
	x := ex.val(st, fr, in.X)
	var lo, hi, max Term
	hasLo, hasHi, hasMax := in.Low != nil, in.High != nil, in.Max != nil
	if hasLo {
		lo = ex.val(st, fr, in.Low).(Term)
	} else {
		lo = IntT(0)
	}
	if hasHi {
		hi = ex.val(st, fr, in.High).(Term)
	}
	if hasMax {
		max = ex.val(st, fr, in.Max).(Term)
	}
	switch xt := in.X.Type().Underlying().(type) {
	case *types.Slice:
		s := ex.coerce(x, in.X.Type()).(SliceV)
		if !hasHi {
			hi = s.Len
		}
		cp := s.Cap
		if hasMax {
			ex.safe(st, And(Le(hi, max), Le(max, s.Cap)), in, "slice bounds out of range")
			cp = max
		}
		ex.safe(st, And(Le(IntT(0), lo), Le(lo, hi), Le(hi, s.Cap)), in, "slice bounds out of range")
		noff := Add(s.Off, lo)
		if _, isNum := lo.numeral(); !isNum && noff.S != s.Off.S && !strings.Contains(noff.S, "(ite ") {
			// index terms of the new slice, ix(off+lo, k), are also index terms ix(off, lo+k) of the
			// old one: without this instance quantified facts about the old slice (triggered on
			// ix(off, _)) are never instantiated for elements reached through the new slice
			st.Assume(Term{fmt.Sprintf("(forall ((k Int)) (! (= (ix %s k) (ix %s (+ %s k))) :pattern ((ix %s k))))", noff.S, s.Off.S, lo.S, noff.S), SBool})
		}
		return SliceV{s.Arr, noff, Sub(hi, lo), Sub(cp, lo)}
	case *types.Basic: // string
		b := x.(Term)
		n := App(SInt, "blen", b)
		if !hasHi {
			hi = n
		}
		ex.safe(st, And(Le(IntT(0), lo), Le(lo, hi), Le(hi, n)), in, "slice bounds out of range")
		if !hasLo && !hasHi {
			return b
		}
		return App(SBytes, "bsub", b, lo, hi)
	case *types.Pointer:
		at := xt.Elem().Underlying().(*types.Array)
		arr, ok := x.(Term)
		if !ok {
			ex.unsupported("slice of %T", x)
			return ex.symbolic(st, "slice", in.Type())
		}
		n := IntT(at.Len())
		if !hasHi {
			hi = n
		}
		ex.safe(st, And(Le(IntT(0), lo), Le(lo, hi), Le(hi, n)), in, "slice bounds out of range")
		return SliceV{arr, lo, Sub(hi, lo), Sub(n, lo)}
	}
	ex.unsupported("slice of %s", in.X.Type())
	return ex.symbolic(st, "slice", in.Type())
}

func (ex *Exec) content(st *State, s SliceV) Term {
	h := ex.heap(st, "[]uint8", Arr2Sort(SInt))
	return App(SBytes, "bslice", Select(h, s.Arr), s.Off, s.Len)
}

func (ex *Exec) convert(st *State, x Val, from, to types.Type, instr ssa.Instruction) Val {
	fk, tk := kindOf(from), kindOf(to)
	switch {
	case fk == KInt && tk == KInt:
		t := x.(Term)
		fb, tb := intBits(from), intBits(to)
		fu, tu := isUnsigned(from), isUnsigned(to)
		if n, ok := t.numeral(); ok {
			m := pow2(tb)
			r := new(big.Int).Mod(n, m)
			if !tu && r.Cmp(pow2(tb-1)) >= 0 {
				r.Sub(r, m)
			}
			return BigT(r)
		}
		switch {
		case tu && fu && tb >= fb:
			return t
		case !tu && !fu && tb >= fb:
			return t
		case !tu && fu && tb > fb:
			return t
		case tu: // to unsigned, possibly narrowing or from signed
			return App(SInt, "mod", t, BigT(pow2(tb)))
		default: // to signed, narrowing or from same-width unsigned
			m := App(SInt, "mod", t, BigT(pow2(tb)))
			return Ite(Ge(m, BigT(pow2(tb-1))), Sub(m, BigT(pow2(tb))), m)
		}
	case fk == KString && tk == KSlice:
		b := x.(Term)
		arr := ex.freshRef(st, "arr")
		n := App(SInt, "blen", b)
		h := ex.heap(st, "[]uint8", Arr2Sort(SInt))
		a := ex.D.Fresh("bytesarr", ArrSort(SInt))
		st.Heaps["[]uint8"] = Store(h, arr, a)
		st.Assume(Eq(App(SBytes, "bslice", a, IntT(0), n), b))
		return SliceV{arr, IntT(0), n, n}
	case fk == KSlice && tk == KString:
		s := ex.coerce(x, from).(SliceV)
		return ex.content(st, s)
	case fk == KInt && tk == KString:
		return App(SBytes, "bchar", x.(Term))
	case fk == KInt && tk == KFloat:
		return App(SF64, "f64ofint", x.(Term))
	case fk == KFloat && tk == KInt:
		return App(SInt, "f64toint", x.(Term))
	case fk == KFloat && tk == KFloat:
		return x
	case fk == KRef && tk == KRef:
		return x
	case fk == KString && tk == KString:
		return x
	}
	ex.unsupported("conversion %s -> %s", from, to)
	return ex.symbolic(st, "conv", to)
}

// ---- interfaces ------------------------------------------------------------------------------

func (ex *Exec) makeIface(st *State, x Val, t types.Type) Val {
	if kindOf(t) == KIface {
		return x
	}
	tag := IntT(int64(ex.ctx.typeID(t)))
	switch kindOf(t) {
	case KRef:
		if p, ok := x.(Term); ok {
			return IfaceV{tag, p}
		}
		if c, ok := x.(*ClosureV); ok {
			return IfaceV{tag, ex.closureRef(c)}
		}
		r := ex.freshRef(st, "box")
		if a, ok := x.(AddrV); ok {
			if ex.addrBoxes == nil {
				ex.addrBoxes = map[string]AddrV{}
			}
			ex.addrBoxes[r.S] = a
		}
		return IfaceV{tag, r}
	case KStruct:
		r := ex.freshRef(st, "box")
		if sv, ok := x.(*StructV); ok {
			ex.storeLoc(st, Loc{Kind: LStruct, Ref: r, Typ: t}, sv)
		}
		return IfaceV{tag, r}
	case KArray:
		return IfaceV{tag, ex.freshRef(st, "box")}
	}
	r := ex.freshRef(st, "box")
	ex.storeLoc(st, Loc{Kind: LHeap1, Heap: "box." + typeKey(t), Ref: r, Typ: t}, x)
	return IfaceV{tag, r}
}

func (ex *Exec) unbox(st *State, i IfaceV, t types.Type) Val {
	switch kindOf(t) {
	case KRef:
		return i.Ref
	case KStruct:
		v := ex.loadLoc(st, Loc{Kind: LStruct, Ref: i.Ref, Typ: t})
		ex.assumeTyped(st, v, t)
		return v
	case KArray:
		return i.Ref
	}
	v := ex.loadLoc(st, Loc{Kind: LHeap1, Heap: "box." + typeKey(t), Ref: i.Ref, Typ: t})
	ex.assumeTyped(st, v, t)
	return v
}

func (ex *Exec) typeAssert(st *State, in *ssa.TypeAssert, x Val) Val {
	i := ex.coerce(x, in.X.Type()).(IfaceV)
	var ok Term
	var v Val
	if kindOf(in.AssertedType) == KIface {
		it := in.AssertedType.Underlying().(*types.Interface)
		if it.NumMethods() == 0 {
			ok = Neq(i.Tag, IntT(0))
		} else {
			var alts []Term
			for _, ct := range ex.ctx.implementers(it) {
				alts = append(alts, Eq(i.Tag, IntT(int64(ex.ctx.typeID(ct)))))
			}
			known := Or(alts...)
			// types outside the loaded program may implement it too: an uninterpreted predicate covers them
			other := App(SBool, smtSym("implements:"+typeKey(in.AssertedType)), i.Tag)
			ex.D.Fun("implements:"+typeKey(in.AssertedType), []string{SInt}, SBool)
			ok = And(Neq(i.Tag, IntT(0)), Or(known, other))
		}
		v = i
	} else {
		ok = Eq(i.Tag, IntT(int64(ex.ctx.typeID(in.AssertedType))))
		v = nil
	}
	if in.CommaOk {
		if v == nil {
			// value is the unboxed payload when ok, zero otherwise; we return the payload under ok
			st2 := st
			v = ex.unbox(st2, i, in.AssertedType)
		}
		return TupleV{v, ok}
	}
	ex.safe(st, ok, in, "interface conversion (type assertion) fails")
	if v == nil {
		v = ex.unbox(st, i, in.AssertedType)
	}
	return v
}

// skipSet: instructions that only build the argument list of an erased (logging) call: the
// varargs array, the boxing of its elements and the stores into it. They have no effect that
// any contract can observe, and skipping them keeps allocation noise out of the heaps.
func (ex *Exec) skipSet(fn *ssa.Function) map[ssa.Instruction]bool {
	ex.ctx.mu.Lock()
	if s, ok := ex.ctx.skips[fn]; ok {
		ex.ctx.mu.Unlock()
		return s
	}
	ex.ctx.mu.Unlock()
	skip := map[ssa.Instruction]bool{}
	erasedCall := func(in ssa.Instruction) bool {
		c, ok := in.(*ssa.Call)
		if !ok {
			return false
		}
		if c.Call.IsInvoke() {
			return ex.isErased(methodKey(c.Call.Method))
		}
		if f, ok := c.Call.Value.(*ssa.Function); ok {
			return ex.isErased(fullName(f)) || ex.isErased(funcKey(f))
		}
		return false
	}
	for _, b := range fn.Blocks {
		for _, in := range b.Instrs {
			a, ok := in.(*ssa.Alloc)
			if !ok || a.Comment != "varargs" {
				continue
			}
			okAll := true
			var members []ssa.Instruction
			for _, r := range *a.Referrers() {
				switch x := r.(type) {
				case *ssa.IndexAddr:
					members = append(members, x)
					for _, rr := range *x.Referrers() {
						st, isStore := rr.(*ssa.Store)
						if !isStore || st.Addr != x {
							okAll = false
							break
						}
						members = append(members, st)
						if mi, ok := st.Val.(*ssa.MakeInterface); ok && len(*mi.Referrers()) == 1 {
							members = append(members, mi)
						}
					}
				case *ssa.Slice:
					members = append(members, x)
					for _, rr := range *x.Referrers() {
						if !erasedCall(rr) {
							okAll = false
						}
					}
				default:
					okAll = false
				}
			}
			if okAll {
				skip[a] = true
				for _, m := range members {
					skip[m] = true
				}
			}
		}
	}
	ex.ctx.mu.Lock()
	ex.ctx.skips[fn] = skip
	ex.ctx.mu.Unlock()
	return skip
}

// checkGuard: a guarded package-level variable is only touched while its mutex is held.
func (ex *Exec) checkGuard(st *State, g *ssa.Global, instr ssa.Instruction) {
	if ex.disc != nil || g.Pkg == nil {
		return
	}
	gd, ok := ex.ctx.specs.Guarded[g.Pkg.Pkg.Name()+"."+g.Name()]
	if !ok {
		return
	}
	lk, ok := g.Pkg.Members[gd.Lock].(*ssa.Global)
	if !ok {
		ex.errs = append(ex.errs, "contract-binding: guarded_by names unknown lock "+gd.Lock)
		return
	}
	ref, _ := ex.globalAddr(lk).(Term)
	held := Select(ex.heap(st, "ghost:sync.Mutex.held", ArrSort(SBool)), ref)
	ex.oblige(st, "guarded", g.Name()+" @ "+ex.srcLine(instr), gd.Props, held, "access to "+g.Name()+" while "+gd.Lock+" is held")
}

var escapeCache sync.Map

// structEscapes: the address of a struct local is used for anything but field loads and stores.
func structEscapes(a *ssa.Alloc) bool {
	if v, ok := escapeCache.Load(a); ok {
		return v.(bool)
	}
	var check func(v ssa.Value) bool
	check = func(v ssa.Value) bool {
		refs := v.Referrers()
		if refs == nil {
			return true
		}
		for _, r := range *refs {
			switch x := r.(type) {
			case *ssa.UnOp:
				if x.X != v {
					return true
				}
			case *ssa.Store:
				if x.Addr != v || x.Val == v {
					return true
				}
			case *ssa.FieldAddr:
				if x.X != v {
					return true
				}
				if kindOf(deref(x.Type())) == KArray {
					return true
				}
				if check(x) {
					return true
				}
			case *ssa.DebugRef:
			default:
				return true
			}
		}
		return false
	}
	esc := a.Heap || check(a)
	escapeCache.Store(a, esc)
	return esc
}

// safetyProps: panic-freedom obligations belong to C14 and to every property the function serves
// (a postcondition says nothing about executions that panic).
func (ex *Exec) safetyProps() []string {
	ps := []string{"C14"}
	if ex.contract != nil {
		for _, p := range ex.contract.Props {
			if p != "C14" {
				ps = append(ps, p)
			}
		}
	}
	return ps
}

// wrapMul64: the product of two 64-bit signed integers as the machine computes it (wrap-around).
func wrapMul64(x, y Term) Term {
	// the constant factor second: c*x and x*c are then the same term
	if _, xn := x.numeral(); xn {
		if _, yn := y.numeral(); !yn {
			x, y = y, x
		}
	}
	p := Mul(x, y)
	lo, hi := BigT(new(big.Int).Neg(pow2(63))), BigT(pow2(63))
	wrapped := Sub(App(SInt, "mod", Add(p, BigT(pow2(63))), BigT(pow2(64))), BigT(pow2(63)))
	return Ite(And(Le(lo, p), Lt(p, hi)), p, wrapped)
}

// retLabel names a return statement of the function under verification: its source text plus its ordinal among the
// return statements with the same text (in source order) -- stable under edits elsewhere in the file.
func (ex *Exec) retLabel(in *ssa.Return) string {
	if ex.retLabels == nil {
		ex.retLabels = map[ssa.Instruction]string{}
		type rp struct {
			in  ssa.Instruction
			pos int
			txt string
		}
		var rs []rp
		for _, b := range ex.fn.Blocks {
			for _, i := range b.Instrs {
				if r, ok := i.(*ssa.Return); ok && r.Pos().IsValid() {
					rs = append(rs, rp{r, int(r.Pos()), ex.srcLine(r)})
				}
			}
		}
		sort.Slice(rs, func(a, b int) bool { return rs[a].pos < rs[b].pos })
		n := map[string]int{}
		for _, r := range rs {
			n[r.txt]++
			ex.retLabels[r.in] = fmt.Sprintf("%s #%d", r.txt, n[r.txt])
		}
	}
	if l, ok := ex.retLabels[in]; ok {
		return l
	}
	return ""
}
