package nsqd

// Bounded stand-in for C09 (exact persistent FIFO across clean restarts): the real DiskQueue in
// a temporary directory against a slice model, exhaustive over short operation histories.
// Injected in-package with `go test -overlay` by /verif's checker.

import (
	"bytes"
	"fmt"
	"io/ioutil"
	"log"
	"os"
	"testing"
	"time"
)

type vop struct {
	kind int // 0 put, 1 get, 2 close+reopen
	n    int
}

func vmsg(seq, n int) []byte {
	b := make([]byte, n)
	for i := range b {
		b[i] = byte('a' + (seq+i)%26)
	}
	return b
}

func vrun(t *testing.T, hist []vop, maxBytes, syncEvery int64) string {
	base := ""
	if st, err := os.Stat("/dev/shm"); err == nil && st.IsDir() {
		base = "/dev/shm"
	}
	dir, err := ioutil.TempDir(base, "verifdq")
	if err != nil {
		t.Fatal(err)
	}
	defer os.RemoveAll(dir)
	open := func() BackendQueue { return NewDiskQueue("q", dir, maxBytes, syncEvery, time.Hour) }
	q := open()
	var model [][]byte
	seq := 0
	for i, op := range hist {
		switch op.kind {
		case 0:
			m := vmsg(seq, op.n)
			seq++
			if err := q.Put(m); err != nil {
				return fmt.Sprintf("step %d: Put(len %d) failed: %v", i, op.n, err)
			}
			model = append(model, m)
		case 1:
			if len(model) == 0 {
				continue
			}
			select {
			case got := <-q.ReadChan():
				if !bytes.Equal(got, model[0]) {
					return fmt.Sprintf("step %d: delivered %q, expected %q (FIFO order / content)", i, got, model[0])
				}
				model = model[1:]
			case <-time.After(2 * time.Second):
				return fmt.Sprintf("step %d: nothing delivered although %d messages are outstanding", i, len(model))
			}
		case 2:
			if err := q.Close(); err != nil {
				return fmt.Sprintf("step %d: Close failed: %v", i, err)
			}
			q = open()
		}
	}
	// at rest: depth, then drain and compare, then nothing more
	// "at rest": the queue's own goroutine acknowledges a delivery (and decrements depth) after the
	// consumer has received it, so wait until the depth stops lagging (bounded wait)
	deadline := time.Now().Add(2 * time.Second)
	for q.(*DiskQueue).Depth() != int64(len(model)) && time.Now().Before(deadline) {
		time.Sleep(200 * time.Microsecond)
	}
	if d := q.(*DiskQueue).Depth(); d != int64(len(model)) {
		return fmt.Sprintf("at rest: Depth()=%d, %d messages enqueued and not delivered", d, len(model))
	}
	for len(model) > 0 {
		select {
		case got := <-q.ReadChan():
			if !bytes.Equal(got, model[0]) {
				return fmt.Sprintf("drain: delivered %q, expected %q", got, model[0])
			}
			model = model[1:]
		case <-time.After(2 * time.Second):
			return fmt.Sprintf("drain: nothing delivered although %d messages are outstanding", len(model))
		}
	}
	select {
	case got := <-q.ReadChan():
		return fmt.Sprintf("drain: extra message %q delivered after everything was consumed (duplicate)", got)
	case <-time.After(3 * time.Millisecond):
	}
	q.Close()
	return ""
}

func TestBounded_diskQueueFIFO(t *testing.T) {
	log.SetOutput(ioutil.Discard)
	maxOps := 4
	if os.Getenv("VERIF_TIER") == "thorough" {
		maxOps = 6
	}
	alphabet := []vop{{0, 0}, {0, 1}, {0, 5}, {0, 40}, {1, 0}, {2, 0}}
	configs := [][2]int64{{1, 1}, {9, 1}, {20, 3}, {100, 1}, {100, 3}, {9, 3}}
	var hists [][]vop
	var gen func(h []vop)
	gen = func(h []vop) {
		if len(h) == maxOps {
			hists = append(hists, h)
			return
		}
		for _, op := range alphabet {
			gen(append(append([]vop{}, h...), op))
		}
	}
	gen(nil)
	if os.Getenv("VERIF_TIER") == "thorough" {
		// every history of 6 operations is 46656 x 6 configurations: take every 4th (fixed stride, deterministic)
		var sub [][]vop
		for i, h := range hists {
			if i%4 == 0 {
				sub = append(sub, h)
			}
		}
		hists = sub
	}
	type job struct {
		h []vop
		c [2]int64
	}
	jobs := make(chan job)
	results := make(chan string, 64)
	workers := 16
	for w := 0; w < workers; w++ {
		go func() {
			for j := range jobs {
				if msg := vrun(t, j.h, j.c[0], j.c[1]); msg != "" {
					results <- fmt.Sprintf("history=%v maxBytesPerFile=%d syncEvery=%d: %s", j.h, j.c[0], j.c[1], msg)
				} else {
					results <- ""
				}
			}
		}()
	}
	count := 0
	go func() {
		for _, h := range hists {
			for _, c := range configs {
				jobs <- job{h, c}
			}
		}
		close(jobs)
	}()
	total := len(hists) * len(configs)
	for i := 0; i < total; i++ {
		count++
		if msg := <-results; msg != "" {
			fmt.Printf("REPLAY-CONFIRMED nsqd.DiskQueue FIFO violated: %s\n", msg)
			t.FailNow()
		}
	}
	fmt.Printf("BOUNDED diskQueueFIFO: %d (history, configuration) runs of %d operations over {put 0/1/5/40 bytes, get, close+reopen}\n", count, maxOps)
}
