package route

// Replay harness and bounded stand-ins for package route. Injected in-package with
// `go test -overlay` by /verif's checker; never part of the repository.

import (
	"crypto/md5"
	"fmt"
	"math/rand"
	"os"
	"sort"
	"strconv"
	"strings"
	"testing"

	dest "github.com/grafana/carbon-relay-ng/destination"
)

func vseed() int64 {
	if s, err := strconv.ParseInt(os.Getenv("VERIF_SEED"), 10, 64); err == nil {
		return s
	}
	return 1
}

// TestBounded_computeRingPosition: result == md5(key)[0]*256 + md5(key)[1].
func TestBounded_computeRingPosition(t *testing.T) {
	rng := rand.New(rand.NewSource(vseed()))
	keys := []string{"", "a", "('127.0.0.1', None):0", "('host', 'a'):99", "servers.foo.cpu"}
	for i := 0; i < 2000; i++ {
		n := rng.Intn(40)
		b := make([]byte, n)
		for j := range b {
			b[j] = byte(rng.Intn(256))
		}
		keys = append(keys, string(b))
	}
	for _, k := range keys {
		sum := md5.Sum([]byte(k))
		want := uint16(sum[0])<<8 | uint16(sum[1])
		if got := computeRingPosition([]byte(k)); got != want {
			fmt.Printf("REPLAY-CONFIRMED route.computeRingPosition#ensures:md5_16bit key=%q got=%d want=%d\n", k, got, want)
			t.FailNow()
		}
	}
	fmt.Printf("BOUNDED computeRingPosition: %d keys\n", len(keys))
}

type vnode struct{ host, inst string }
type vent struct {
	pos        uint16
	host, inst string
}

// reference implementation of Carbon's ConsistentHashRing for a set of (host, instance) nodes
func vring(nodes []vnode) []vent {
	var ring []vent
	for _, n := range nodes {
		for i := 0; i < 100; i++ {
			var key string
			if n.inst == "" {
				key = fmt.Sprintf("('%s', None):%d", n.host, i)
			} else {
				key = fmt.Sprintf("('%s', '%s'):%d", n.host, n.inst, i)
			}
			sum := md5.Sum([]byte(key))
			ring = append(ring, vent{uint16(sum[0])<<8 | uint16(sum[1]), n.host, n.inst})
		}
	}
	sort.Slice(ring, func(i, j int) bool {
		a, b := ring[i], ring[j]
		if a.pos != b.pos {
			return a.pos < b.pos
		}
		if a.host != b.host {
			return a.host < b.host
		}
		return a.inst < b.inst
	})
	return ring
}

func vowner(ring []vent, name string) vnode {
	sum := md5.Sum([]byte(name))
	p := uint16(sum[0])<<8 | uint16(sum[1])
	i := sort.Search(len(ring), func(i int) bool { return ring[i].pos >= p })
	e := ring[i%len(ring)]
	return vnode{e.host, e.inst}
}

func vdests(nodes []vnode, withPort []bool) []*dest.Destination {
	var ds []*dest.Destination
	for i, n := range nodes {
		addr := n.host
		if withPort[i] {
			addr += ":2004"
		}
		ds = append(ds, &dest.Destination{Addr: addr, Instance: n.inst})
	}
	return ds
}

func vperms(n int) [][]int {
	if n == 0 {
		return [][]int{{}}
	}
	var out [][]int
	for _, p := range vperms(n - 1) {
		for i := 0; i <= len(p); i++ {
			q := append(append(append([]int{}, p[:i]...), n-1), p[i:]...)
			out = append(out, q)
		}
	}
	return out
}

// TestBounded_consistentHashRing: agreement with Carbon's ring, order independence, minimal movement.
func TestBounded_consistentHashRing(t *testing.T) {
	rng := rand.New(rand.NewSource(vseed()))
	all := []vnode{{"10.0.0.1", ""}, {"10.0.0.1", "b"}, {"10.0.0.2", "a"}, {"carbon-3.example.org", ""}, {"h5", "a"}}
	port := []bool{true, true, false, true, false}
	nNames := 3000
	if os.Getenv("VERIF_TIER") == "thorough" {
		nNames = 20000
	}
	names := make([]string, nNames)
	for i := range names {
		names[i] = fmt.Sprintf("servers.host%d.cpu%d.%s", rng.Intn(500), rng.Intn(64), strings.Repeat("x", rng.Intn(6)))
	}
	fail := func(format string, a ...interface{}) {
		fmt.Printf("REPLAY-CONFIRMED route.NewConsistentHasher#ensures:replicas "+format+"\n", a...)
		t.FailNow()
	}
	checked := 0
	// every non-empty subset of up to 4 nodes, in every order
	for mask := 1; mask < 1<<len(all); mask++ {
		var idx []int
		for i := range all {
			if mask&(1<<i) != 0 {
				idx = append(idx, i)
			}
		}
		if len(idx) > 4 {
			continue
		}
		var nodes []vnode
		for _, i := range idx {
			nodes = append(nodes, all[i])
		}
		ref := vring(nodes)
		for _, perm := range vperms(len(idx)) {
			var pn []vnode
			var pp []bool
			for _, k := range perm {
				pn = append(pn, all[idx[k]])
				pp = append(pp, port[idx[k]])
			}
			ds := vdests(pn, pp)
			h := NewConsistentHasher(ds)
			if h.replicaCount != 100 || len(h.Ring) != 100*len(ds) {
				fail("replica count %d, ring size %d for %d destinations", h.replicaCount, len(h.Ring), len(ds))
			}
			for _, name := range names[:nNames/len(vperms(len(idx)))] {
				di := h.GetDestinationIndex([]byte(name))
				if di < 0 || di >= len(ds) {
					fail("destination index %d out of range for %d destinations", di, len(ds))
				}
				got := vnode{strings.Split(ds[di].Addr, ":")[0], ds[di].Instance}
				if want := vowner(ref, name); got != want {
					fail("destinations=%v name=%q: relay picks %v, Carbon's ring picks %v", pn, name, got, want)
				}
				checked++
			}
		}
		// minimal movement: adding a node moves only keys that land on it; removing moves only its keys
		for extra := range all {
			if mask&(1<<extra) != 0 {
				continue
			}
			bigger := vring(append(append([]vnode{}, nodes...), all[extra]))
			hs := NewConsistentHasher(vdests(nodes, make([]bool, len(nodes))))
			hb := NewConsistentHasher(vdests(append(append([]vnode{}, nodes...), all[extra]), make([]bool, len(nodes)+1)))
			_ = bigger
			for _, name := range names[:300] {
				a := nodes[hs.GetDestinationIndex([]byte(name))]
				bi := hb.GetDestinationIndex([]byte(name))
				var b vnode
				if bi == len(nodes) {
					b = all[extra]
				} else {
					b = nodes[bi]
				}
				if a != b && b != all[extra] {
					fail("adding %v to %v moved %q from %v to %v (neither is the new node)", all[extra], nodes, name, a, b)
				}
			}
		}
	}
	fmt.Printf("BOUNDED consistentHashRing: %d (destination list, name) pairs compared with the reference ring\n", checked)
}
