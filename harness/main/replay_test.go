package main

// Bounded stand-in for configuration-file interpolation (C20). Injected in-package with
// `go test -overlay` by /verif's checker; never part of the repository.

import (
	"fmt"
	"os"
	"strings"
	"testing"
)

var vdocumented = []string{"HOST", "GRAFANA_NET_ADDR", "GRAFANA_NET_API_KEY", "GRAFANA_NET_USER_ID"}

func vident(c byte) bool {
	return c == '_' || c >= '0' && c <= '9' || c >= 'a' && c <= 'z' || c >= 'A' && c <= 'Z'
}

// reference: only $NAME / ${NAME} with a documented NAME are substituted; everything else is copied
func vreference(s string, val func(string) string) string {
	var b strings.Builder
	for i := 0; i < len(s); {
		if s[i] != '$' {
			b.WriteByte(s[i])
			i++
			continue
		}
		done := false
		for _, n := range vdocumented {
			if strings.HasPrefix(s[i+1:], "{"+n+"}") {
				b.WriteString(val(n))
				i += len(n) + 3
				done = true
				break
			}
			if strings.HasPrefix(s[i+1:], n) && (i+1+len(n) == len(s) || !vident(s[i+1+len(n)])) {
				b.WriteString(val(n))
				i += len(n) + 1
				done = true
				break
			}
		}
		if !done {
			b.WriteByte('$')
			i++
		}
	}
	return b.String()
}

// TestBounded_expandConfig: every string built from up to 5 pieces of the alphabet below is
// interpolated exactly as the reference says: documented variables replaced (both spellings),
// every other '$' sequence -- $1, ${1}, ${name}, $HOSTNAME, a lone $ -- left unchanged.
func TestBounded_expandConfig(t *testing.T) {
	os.Setenv("GRAFANA_NET_ADDR", "https://gn.example/metrics")
	os.Setenv("GRAFANA_NET_API_KEY", "k3y")
	os.Setenv("GRAFANA_NET_USER_ID", "42")
	host, _ := os.Hostname()
	host = strings.SplitN(host, ".", 2)[0]
	val := func(n string) string {
		if n == "HOST" {
			return host
		}
		return os.Getenv(n)
	}
	pieces := []string{"$", "{", "}", "1", "x", "_", ".", " ", "HOST", "NAME", "${1}", "$1", "${HOST}", "$HOST", "GRAFANA_NET_ADDR", "$GRAFANA_NET_API_KEY", "${GRAFANA_NET_USER_ID}", "\\1", "'"}
	maxLen := 4
	if os.Getenv("VERIF_TIER") == "thorough" {
		maxLen = 5
	}
	n := 0
	var gen func(prefix string, k int) bool
	gen = func(prefix string, k int) bool {
		got := expandConfig(prefix)
		want := vreference(prefix, val)
		n++
		if got != want {
			fmt.Printf("REPLAY-CONFIRMED main.expandConfig#bounded: config text %q is interpolated to %q, documented behaviour gives %q\n", prefix, got, want)
			return false
		}
		if k == 0 {
			return true
		}
		for _, p := range pieces {
			if !gen(prefix+p, k-1) {
				return false
			}
		}
		return true
	}
	if !gen("", maxLen) {
		t.FailNow()
	}
	// the documented examples with group references
	for _, s := range []string{`addAgg sum regex=^stats\.([^.]+)\.(.*) stats.$1.total.${2} 10 20`, `addRewriter /(foo)\.(bar)/ ${2}.$1 -1`, `instance = "${HOST}"`, `instance = "$HOST.relay"`} {
		if got, want := expandConfig(s), vreference(s, val); got != want {
			fmt.Printf("REPLAY-CONFIRMED main.expandConfig#bounded: config text %q is interpolated to %q, documented behaviour gives %q\n", s, got, want)
			t.FailNow()
		}
	}
	fmt.Printf("BOUNDED expandConfig: %d strings of up to %d pieces\n", n, maxLen)
}
