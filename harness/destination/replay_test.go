package destination

// Bounded stand-ins for package destination. Injected in-package with `go test -overlay` by
// /verif's checker; never part of the repository.

import (
	"encoding/hex"
	"encoding/json"
	"fmt"
	"math"
	"os"
	"os/exec"
	"strconv"
	"strings"
	"testing"
)

const vdecoder = `
import sys, json, struct, pickle
out = []
for line in sys.stdin:
    raw = bytes.fromhex(line.strip())
    (n,) = struct.unpack(">I", raw[:4])
    body = raw[4:]
    if n != len(body):
        out.append({"err": "length prefix %d, body has %d bytes" % (n, len(body))}); continue
    utf8 = False
    try:
        v = pickle.loads(body)
    except UnicodeDecodeError as e:
        # the default unpickler (encoding='ASCII') cannot decode a py2-style byte string with non-ASCII bytes
        try:
            v = pickle.loads(body, encoding='utf-8'); utf8 = True
        except Exception as e2:
            out.append({"err": "unpickle: %r" % (e2,)}); continue
    except Exception as e:
        out.append({"err": "unpickle: %r" % (e,)}); continue
    ok = isinstance(v, list) and len(v) == 1 and isinstance(v[0], tuple) and len(v[0]) == 2 and isinstance(v[0][1], tuple) and len(v[0][1]) == 2
    if not ok:
        out.append({"err": "shape %r" % (v,)}); continue
    name, (ts, val) = v[0]
    out.append({"utf8": utf8, "name": name if isinstance(name, str) else repr(name), "ts_is_int": isinstance(ts, int) and not isinstance(ts, bool), "ts": int(ts),
                "val_is_float": isinstance(val, float), "val": float(val).hex()})
json.dump(out, sys.stdout)
`

// TestBounded_pickleFrame: every representable line is framed as a 4-byte big-endian length plus
// a pickle that CPython decodes to [(name, (timestamp, value))] with the same name, integer
// timestamp and float64 value; lines that cannot be represented are rejected by ParseDataPoint.
func TestBounded_pickleFrame(t *testing.T) {
	names := []string{"a.b.c", "servers.web-01.cpu_user", "a.b;dc=eu;host=x1", "x", "café.x", "a.b.c;t=v"}
	vals := []string{"1", "1.5", "1e3", "-0.25", "0", "3.141592653589793", "1e-7", "12345678901234567890", "+5", ".5", "1E2", "-0", "NaN", "Inf"}
	tss := []string{"0", "1", "1234567890", "4294967295"}
	bad := []string{"a.b 1", "a.b 1 2 3", "a.b x 2", "a.b 1 -1", "a.b 1 4294967296", "a.b 1 1.5", "a.b 1 1e3", ""}
	var lines, frames []string
	for _, n := range names {
		for _, v := range vals {
			for _, ts := range tss {
				line := n + " " + v + " " + ts
				dp, err := ParseDataPoint([]byte(line))
				if err != nil {
					fmt.Printf("REPLAY-CONFIRMED destination.ParseDataPoint rejects the valid line %q: %v\n", line, err)
					t.FailNow()
				}
				lines = append(lines, line)
				frames = append(frames, hex.EncodeToString(Pickle(dp)))
			}
		}
	}
	for _, l := range bad {
		if dp, err := ParseDataPoint([]byte(l)); err == nil {
			fmt.Printf("REPLAY-CONFIRMED destination.ParseDataPoint accepts %q (as %+v): a line that cannot be represented must be skipped, not emitted\n", l, *dp)
			t.FailNow()
		}
	}
	cmd := exec.Command("python3", "-c", vdecoder)
	cmd.Stdin = strings.NewReader(strings.Join(frames, "\n") + "\n")
	cmd.Stderr = os.Stderr
	out, err := cmd.Output()
	if err != nil {
		t.Skipf("python3 not available to decode the frames: %v", err)
	}
	var dec []struct {
		Err      string
		Utf8     bool
		Name     string
		TsIsInt  bool `json:"ts_is_int"`
		Ts       int64
		ValFloat bool `json:"val_is_float"`
		Val      string
	}
	if err := json.Unmarshal(out, &dec); err != nil || len(dec) != len(lines) {
		t.Fatalf("decoder output: %v (%d results for %d frames)", err, len(dec), len(lines))
	}
	known := map[string]bool{}
	for _, k := range strings.Split(os.Getenv("VERIF_KNOWN"), ",") {
		known[k] = true
	}
	reproduced := false
	for i, l := range lines {
		f := strings.Fields(l)
		d := dec[i]
		if d.Utf8 {
			ascii := true
			for _, c := range []byte(f[0]) {
				if c >= 0x80 {
					ascii = false
				}
			}
			if ascii || !known["pickle-nonascii-name"] {
				fmt.Printf("REPLAY-CONFIRMED destination.Pickle#ensures:length_prefixed line %q: CPython's default pickle.loads raises UnicodeDecodeError (the name is emitted as a byte string); it decodes only with encoding='utf-8'\n", l)
				t.FailNow()
			}
			if !reproduced {
				reproduced = true
				fmt.Printf("KNOWN-FINDING-REPRODUCED class=pickle-nonascii-name line %q decodes only with pickle.loads(..., encoding='utf-8')\n", l)
			}
		}
		if d.Err != "" {
			fmt.Printf("REPLAY-CONFIRMED destination.Pickle#ensures:length_prefixed line %q: %s\n", l, d.Err)
			t.FailNow()
		}
		wantV, _ := strconv.ParseFloat(f[1], 64)
		wantTs, _ := strconv.ParseInt(f[2], 10, 64)
		gotV, perr := parseHexFloat(d.Val)
		same := perr == nil && (gotV == wantV || (math.IsNaN(gotV) && math.IsNaN(wantV))) && math.Signbit(gotV) == math.Signbit(wantV)
		if d.Name != f[0] || !d.TsIsInt || d.Ts != wantTs || !d.ValFloat || !same {
			fmt.Printf("REPLAY-CONFIRMED destination.Pickle#ensures:length_prefixed line %q decodes in CPython to name=%q ts=%d (int: %v) value=%s (float: %v)\n", l, d.Name, d.Ts, d.TsIsInt, d.Val, d.ValFloat)
			t.FailNow()
		}
	}
	fmt.Printf("BOUNDED pickleFrame: %d lines decoded by CPython, %d unrepresentable lines rejected\n", len(lines), len(bad))
}

func parseHexFloat(s string) (float64, error) {
	switch s {
	case "nan":
		return math.NaN(), nil
	case "inf":
		return math.Inf(1), nil
	case "-inf":
		return math.Inf(-1), nil
	}
	return strconv.ParseFloat(s, 64)
}
