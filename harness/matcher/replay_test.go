package matcher

// Replay harness and bounded stand-ins for package matcher. Injected in-package with
// `go test -overlay` by /verif's checker; never part of the repository.

import (
	"bytes"
	"fmt"
	"os"
	"regexp"
	"testing"
)

var vtoks = []string{"a", "b", ".", "-", `\.`, "?", "*", "+", "{0}", "{1,2}", "(", ")", "|", "[ab]"}

func vinputs(maxLen int) []string {
	alpha := []string{"a", "b", "."}
	out := []string{""}
	frontier := []string{""}
	for l := 0; l < maxLen; l++ {
		var next []string
		for _, p := range frontier {
			for _, c := range alpha {
				next = append(next, p+c)
			}
		}
		out = append(out, next...)
		frontier = next
	}
	return out
}

// TestBounded_regexToPrefix: for every generated regex R with a non-empty derived prefix P and
// every input s: R matches s  ==>  s starts with P   (the contract clause prefix_necessary).
func TestBounded_regexToPrefix(t *testing.T) {
	maxTok := 4
	if os.Getenv("VERIF_TIER") == "thorough" {
		maxTok = 5
	}
	inputs := vinputs(5)
	checked, nontrivial := 0, 0
	var rec func(cur string, n int)
	failed := false
	rec = func(cur string, n int) {
		if failed {
			return
		}
		re, err := regexp.Compile(cur)
		if err == nil {
			checked++
			p := regexToPrefix(cur)
			if len(p) > 0 {
				nontrivial++
				for _, s := range inputs {
					if re.MatchString(s) && !bytes.HasPrefix([]byte(s), p) {
						fmt.Printf("REPLAY-CONFIRMED matcher.regexToPrefix#ensures:prefix_necessary regex=%q input=%q derived_prefix=%q: the regex matches the input but the input does not start with the derived prefix\n", cur, s, p)
						failed = true
						t.Fail()
						return
					}
				}
			}
		}
		if n == maxTok {
			return
		}
		for _, tk := range vtoks {
			rec(cur+tk, n+1)
		}
	}
	rec("^", 0)
	for _, tk := range []string{"a", `\.`, "("} { // a few unanchored starts
		rec(tk, 1)
	}
	fmt.Printf("BOUNDED regexToPrefix: %d compilable regexes, %d with a non-empty prefix, %d inputs each\n", checked, nontrivial, len(inputs))
}

// TestReplay_Matcher_Match evaluates the six-way conjunction directly and compares with Match
// over a small space (used to confirm refutations of matcher.Matcher.Match#ensures:conj).
func TestReplay_Matcher_Match(t *testing.T) { replayMatch(t, false) }

func TestReplay_Matcher_PreMatch(t *testing.T) { replayMatch(t, true) }

func replayMatch(t *testing.T, pre bool) {
	opts := []string{"", "a", "ab", "b."}
	res := []string{"", "^a", "b$", "^ab?"}
	inputs := vinputs(4)
	for _, p := range opts {
		for _, np := range opts {
			for _, sub := range opts {
				for _, nsub := range opts {
					for _, re := range res {
						for _, nre := range res {
							m, err := New(p, np, sub, nsub, re, nre)
							if err != nil {
								continue
							}
							for _, s := range inputs {
								b := []byte(s)
								want := (p == "" || bytes.HasPrefix(b, []byte(p))) && (np == "" || !bytes.HasPrefix(b, []byte(np))) &&
									(sub == "" || bytes.Contains(b, []byte(sub))) && (nsub == "" || !bytes.Contains(b, []byte(nsub))) &&
									(re == "" || regexp.MustCompile(re).MatchString(s)) && (nre == "" || !regexp.MustCompile(nre).MatchString(s))
								if pre {
									if want && !m.PreMatch(b) {
										fmt.Printf("REPLAY-CONFIRMED matcher.Matcher.PreMatch rejects a name the filter accepts: matcher=%s name=%q\n", m.String(), s)
										t.FailNow()
									}
								} else if got := m.Match(b); got != want {
									fmt.Printf("REPLAY-CONFIRMED matcher.Matcher.Match=%v but the documented conjunction is %v: matcher=%s name=%q\n", got, want, m.String(), s)
									t.FailNow()
								}
							}
						}
					}
				}
			}
		}
	}
}
