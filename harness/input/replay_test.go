package input

// Bounded stand-ins for the input handlers (C12 audit of the Scanner assumption, C13 equivalence
// of pickle and plain input). Injected in-package with `go test -overlay`.

import (
	"bytes"
	"encoding/hex"
	"encoding/json"
	"fmt"
	"io"
	"math/rand"
	"os"
	"os/exec"
	"strconv"
	"strings"
	"testing"
)

type vcapture struct {
	lines   []string
	invalid int
}

func (c *vcapture) Dispatch(buf []byte) { c.lines = append(c.lines, string(buf)) }
func (c *vcapture) IncNumInvalid()      { c.invalid++ }

// vchunk delivers the stream in pieces of the given sizes (cycling), optionally data together with EOF.
type vchunk struct {
	data    []byte
	sizes   []int
	i       int
	withEOF bool
}

func (r *vchunk) Read(p []byte) (int, error) {
	if len(r.data) == 0 {
		return 0, io.EOF
	}
	n := r.sizes[r.i%len(r.sizes)]
	r.i++
	if n > len(p) {
		n = len(p)
	}
	if n > len(r.data) {
		n = len(r.data)
	}
	copy(p, r.data[:n])
	r.data = r.data[n:]
	if len(r.data) == 0 && r.withEOF {
		return n, io.EOF
	}
	return n, nil
}

func vseed() int64 {
	if s, err := strconv.ParseInt(os.Getenv("VERIF_SEED"), 10, 64); err == nil {
		return s
	}
	return 1
}

func vlines(stream string) []string {
	// newline-delimited lines, one trailing CR removed, final unterminated line included
	var out []string
	for len(stream) > 0 {
		i := strings.IndexByte(stream, '\n')
		var l string
		if i < 0 {
			l, stream = stream, ""
		} else {
			l, stream = stream[:i], stream[i+1:]
		}
		out = append(out, strings.TrimSuffix(l, "\r"))
	}
	return out
}

// TestBounded_plainFraming: every cut position, 1-byte reads, data+EOF: the lines dispatched by the
// real Plain.Handle equal the newline-delimited lines of the stream (audit of the Scanner contract).
func TestBounded_plainFraming(t *testing.T) {
	streams := []string{"a.b 1 2\nc.d 3 4\n", "a.b 1 2\r\nc.d 3 4", "\n\nx 1 1\n", "only.one 5 6", "a 1 1\r\n\r\nb 2 2\r", strings.Repeat("k", 5000) + " 1 1\nz 2 2\n"}
	runs := 0
	for _, s := range streams {
		want := vlines(s)
		var cuts [][]int
		cuts = append(cuts, []int{1}, []int{len(s) + 1}, []int{2, 1}, []int{3, 7, 1})
		for c := 1; c < len(s) && c < 40; c++ {
			cuts = append(cuts, []int{c, len(s)})
		}
		for _, sizes := range cuts {
			for _, eof := range []bool{false, true} {
				cap := &vcapture{}
				err := NewPlain(cap).Handle(&vchunk{data: []byte(s), sizes: sizes, withEOF: eof})
				runs++
				if err != nil || fmt.Sprint(cap.lines) != fmt.Sprint(want) {
					fmt.Printf("REPLAY-CONFIRMED input.Plain.Handle framing depends on segmentation: stream=%q read sizes=%v eof-with-data=%v: dispatched %q, lines are %q (err %v)\n", s, sizes, eof, cap.lines, want, err)
					t.FailNow()
				}
			}
		}
	}
	fmt.Printf("BOUNDED plainFraming: %d (stream, segmentation) runs\n", runs)
}

// TestBounded_pickleEquivalence: frames produced by CPython's pickle (protocols 0-4, tuples/lists,
// int/long/float/str fields) yield the same datapoints as the equivalent text lines, for several
// segmentations and several frames per connection; an invalid item only counts as invalid.
func TestBounded_pickleEquivalence(t *testing.T) {
	gen := os.Getenv("VERIF_PICKLE_GEN")
	if gen == "" {
		gen = "/verif/harness/input/gen_pickles.py"
	}
	out, err := exec.Command("python3", gen).Output()
	if err != nil {
		t.Skipf("python3 not available to generate reference pickles: %v", err)
	}
	var cases []struct {
		Proto   int
		Frame   string
		Lines   []string
		Invalid int
		Ascii   bool
	}
	known := map[string]bool{}
	for _, k := range strings.Split(os.Getenv("VERIF_KNOWN"), ",") {
		known[k] = true
	}
	reproduced := map[string]bool{}
	if err := json.Unmarshal(out, &cases); err != nil {
		t.Fatal(err)
	}
	rng := rand.New(rand.NewSource(vseed()))
	points := 0
	for _, c := range cases {
		frame, _ := hex.DecodeString(c.Frame)
		// two frames on one connection
		stream := append(append([]byte{}, frame...), frame...)
		want := append(append([]string{}, c.Lines...), c.Lines...)
		for _, sizes := range [][]int{{1}, {len(stream)}, {4, 1, 4096}, {rng.Intn(50) + 1, rng.Intn(500) + 1}} {
			cap := &vcapture{}
			err := NewPickle(cap).Handle(&vchunk{data: append([]byte{}, stream...), sizes: sizes})
			if err != nil {
				fmt.Printf("REPLAY-CONFIRMED input.Pickle.Handle protocol %d: well-formed frames ended the connection with %v (read sizes %v)\n", c.Proto, err, sizes)
				t.FailNow()
			}
			if len(cap.lines) != len(want) || cap.invalid != 2*c.Invalid {
				missing := ""
				seen := map[string]bool{}
				for _, l := range cap.lines {
					seen[l] = true
				}
				for _, l := range want {
					if !seen[l] {
						missing = l
						break
					}
				}
				fmt.Printf("REPLAY-CONFIRMED input.Pickle.Handle protocol %d: %d datapoints dispatched and %d counted invalid, the equivalent text input has %d datapoints and %d invalid items; first datapoint not dispatched: %q\n", c.Proto, len(cap.lines), cap.invalid, len(want), 2*c.Invalid, missing)
				t.FailNow()
			}
			for i := range want {
				if cap.lines[i] != want[i] && c.Proto == 0 && !c.Ascii && known["p0-nonascii-name"] && strings.Contains(want[i], "\u00e9") {
					if !reproduced["p0-nonascii-name"] {
						reproduced["p0-nonascii-name"] = true
						fmt.Printf("KNOWN-FINDING-REPRODUCED class=p0-nonascii-name dispatched %q for text line %q\n", cap.lines[i], want[i])
					}
					continue
				}
				if cap.lines[i] != want[i] && c.Proto >= 1 && known["binint-negative"] && strings.Contains(want[i], " -3 ") && cap.lines[i] == strings.Replace(want[i], " -3 ", " 4294967293 ", 1) {
					if !reproduced["binint-negative"] {
						reproduced["binint-negative"] = true
						fmt.Printf("KNOWN-FINDING-REPRODUCED class=binint-negative dispatched %q for text line %q\n", cap.lines[i], want[i])
					}
					continue
				}
				if cap.lines[i] != want[i] {
					fmt.Printf("REPLAY-CONFIRMED input.Pickle.Handle protocol %d: datapoint %d dispatched as %q, the equivalent text line is %q\n", c.Proto, i, cap.lines[i], want[i])
					t.FailNow()
				}
				points++
			}
		}
	}
	_ = bytes.MinRead
	fmt.Printf("BOUNDED pickleEquivalence: %d frames x 4 segmentations, %d datapoints compared\n", len(cases), points)
}
