# Generates pickle frames with CPython's pickle module (the reference named by property C13):
# every combination of container kinds and field types below, protocols 0-4.
import pickle, struct, json, sys, itertools
names = ["a.b.c", "café.x"]
tss = [1234567890, 2**31 + 5, 1234567890.0, "1234567891"]
vals = [5, -3, 2**31, 2**40 + 1, 1.5, 1e3, "7.25"]
def txt_val(v):
    if isinstance(v, str): return v
    if isinstance(v, int): return str(v)
    return "%f" % v
def txt_ts(t):
    if isinstance(t, str): return t
    if isinstance(t, int): return str(t)
    return "%.0f" % t
cases = []
for proto in range(0, 5):
    for outer in (list,):
        for pt in (tuple, list):
            for inner in (tuple, list):
                items, lines = [], []
                for n, t, v in itertools.product(names, tss, vals):
                    items.append(pt([n, inner([t, v])]))
                    lines.append("%s %s %s" % (n, txt_val(v), txt_ts(t)))
                # one structurally invalid item in the middle must not affect the others
                items.insert(3, pt([n, inner([t])]))
                body = pickle.dumps(outer(items), protocol=proto)
                cases.append({"proto": proto, "frame": (struct.pack(">I", len(body)) + body).hex(), "lines": lines, "invalid": 1})
# the same with ASCII-only names (so that a finding about non-ASCII names does not hide anything else)
names_ascii = ["a.b.c", "x_y-z.0"]
for proto in range(0, 5):
    for pt in (tuple, list):
        for inner in (tuple, list):
            items, lines = [], []
            for n, t, v in itertools.product(names_ascii, tss, vals):
                items.append(pt([n, inner([t, v])]))
                lines.append("%s %s %s" % (n, txt_val(v), txt_ts(t)))
            items.insert(3, pt([n, inner([t])]))
            body = pickle.dumps(list(items), protocol=proto)
            cases.append({"proto": proto, "frame": (struct.pack(">I", len(body)) + body).hex(), "lines": lines, "invalid": 1, "ascii": True})
json.dump(cases, sys.stdout)
