package persister

// Bounded stand-in for the storage-schemas reader. Injected in-package with `go test -overlay`
// by /verif's checker; never part of the repository.

import (
	"fmt"
	"math/rand"
	"os"
	"path/filepath"
	"regexp"
	"strconv"
	"strings"
	"testing"
)

func vseed() int64 {
	if s, err := strconv.ParseInt(os.Getenv("VERIF_SEED"), 10, 64); err == nil {
		return s
	}
	return 1
}

// TestBounded_schemaOrder: for random storage-schemas files, Match selects the rule with the
// highest priority among those whose pattern matches (file order breaking ties), and the first
// retention of that rule is what the caller uses as interval.
func TestBounded_schemaOrder(t *testing.T) {
	rng := rand.New(rand.NewSource(vseed()))
	n := 600
	if os.Getenv("VERIF_TIER") == "thorough" {
		n = 6000
	}
	pats := []string{`^a\.b$`, `^a\.`, `a`, `\.b$`, `^x\.y\.z$`, `;dc=eu`, `^a\.b;`, `.*`, `^servers\.`, `cpu$`, `;dc=eu;h=1$`, `^a\.b;dc=(eu|us)$`, `=`}
	rets := []struct {
		s   string
		sec int
	}{{"10s:1d", 10}, {"60:1440", 60}, {"1m:7d,10m:1y", 60}, {"5s:6h,1m:7d", 5}, {"3600:24", 3600}, {"1h:1y", 3600}}
	prios := []string{"", "0", "1", "2", "-1"}
	names := []string{"a.b", "a.b.c", "a.b;dc=eu", "x.y.z", "servers.web.cpu", "cpu", "b.a", "a", "servers.x;dc=eu;h=1", "z", "a.bb", "xa.b", "a.b;dc=us", "x;dc", "servers.x;dc=eu;h=2"}
	dir := t.TempDir()
	checked := 0
	for it := 0; it < n; it++ {
		k := rng.Intn(6) + 1
		type rule struct {
			pat  string
			prio int64
			sec  int
		}
		var rules []rule
		var b strings.Builder
		for i := 0; i < k; i++ {
			p := pats[rng.Intn(len(pats))]
			r := rets[rng.Intn(len(rets))]
			pr := prios[rng.Intn(len(prios))]
			fmt.Fprintf(&b, "[rule%d]\npattern = %s\nretentions = %s\n", i, p, r.s)
			var pv int64
			if pr != "" {
				fmt.Fprintf(&b, "priority = %s\n", pr)
				pv, _ = strconv.ParseInt(pr, 10, 64)
			}
			b.WriteString("\n")
			rules = append(rules, rule{p, pv, r.sec})
		}
		file := filepath.Join(dir, fmt.Sprintf("s%d.conf", it))
		os.WriteFile(file, []byte(b.String()), 0o644)
		schemas, err := ReadWhisperSchemas(file)
		if err != nil {
			fmt.Printf("REPLAY-CONFIRMED persister.ReadWhisperSchemas rejects a valid file: %v\n%s", err, b.String())
			t.FailNow()
		}
		if len(schemas) != len(rules) {
			fmt.Printf("REPLAY-CONFIRMED persister.ReadWhisperSchemas returned %d rules for %d sections\n%s", len(schemas), len(rules), b.String())
			t.FailNow()
		}
		for _, name := range names {
			// reference: highest priority, then file order, among the matching rules
			best := -1
			for i, r := range rules {
				if regexp.MustCompile(r.pat).MatchString(name) && (best < 0 || r.prio > rules[best].prio) {
					best = i
				}
			}
			s, ok := schemas.Match(name)
			if ok != (best >= 0) {
				fmt.Printf("REPLAY-CONFIRMED persister.WhisperSchemas.Match(%q) found=%v, reference found=%v\n%s", name, ok, best >= 0, b.String())
				t.FailNow()
			}
			if ok && (s.Name != fmt.Sprintf("rule%d", best) || len(s.Retentions) == 0 || s.Retentions[0].SecondsPerPoint() != rules[best].sec) {
				fmt.Printf("REPLAY-CONFIRMED persister.WhisperSchemas.Match(%q) selected [%s] with first retention %v, the first matching rule by (priority, file order) is [rule%d] with %ds\n%s", name, s.Name, s.Retentions, best, rules[best].sec, b.String())
				t.FailNow()
			}
			checked++
		}
	}
	fmt.Printf("BOUNDED schemaOrder: %d files, %d (file, name) lookups\n", n, checked)
}
