#!/bin/bash
# refresh.sh: after contracts or /repo code were changed on purpose: regenerate the reference list of
# named locals (used to bind renamed locals by position) and MANIFEST.json.
export GOFLAGS=-mod=mod GOPROXY=off GOSUMDB=off GOTOOLCHAIN=local
bash /verif/checks/setup.sh >/dev/null && /verif/bin/gcv -genlocals && python3 /verif/checks/manifest.py
