#!/bin/bash
# selftest.sh [seed ...]: must-fail corpus. Every archived seeded change (seeded/<id>/patch.diff) is applied to a
# scratch worktree of /repo (outside /repo and /verif, removed afterwards) and the check of its property is run
# against that tree; the run must report VIOLATION property=<id>. Exit 0 iff every seed is reported.
export GOFLAGS=-mod=mod GOPROXY=off GOSUMDB=off GOTOOLCHAIN=local
cd /verif/seeded || exit 2
SEEDS=${@:-$(ls)}
bash /verif/checks/setup.sh >/dev/null 2>&1
FAIL=0
for S in $SEEDS; do
  P=${S%%-*}
  WT=$(mktemp -d /tmp/selftest.XXXXXX)
  rmdir $WT
  git -C /repo worktree add -q --detach $WT HEAD || { echo "$S: cannot create worktree"; FAIL=1; continue; }
  if ! git -C $WT apply /verif/seeded/$S/patch.diff 2>/dev/null; then
    echo "$S: patch no longer applies (the code it changed was repaired or moved)"
  else
    OUT=$(/verif/bin/gcv -repo $WT -verif /verif -prop $P -tier quick 2>&1 | grep -E "^VIOLATION|^UNDECIDED" | head -3)
    if echo "$OUT" | grep -q "^VIOLATION property=$P"; then echo "$S: reported ($(echo "$OUT" | head -1 | sed 's/.*obligation=//' | cut -c1-90))"
    else echo "$S: NOT REPORTED  $OUT"; FAIL=1; fi
  fi
  git -C /repo worktree remove --force $WT; rm -rf $WT
done
git -C /repo worktree prune
# the runs above were made on deliberately broken trees
git -C /verif checkout -- evidence 2>/dev/null
exit $FAIL
