#!/bin/bash
# seedtest.sh <worktree dir> <seed id> <property> [more properties]: confirm a seeded change
# (compiles, suite passes, demonstration fails with / passes without it), run the registered
# checks against the worktree (gcv -repo) and archive it under /verif/seeded/<id>/.
export GOFLAGS=-mod=mod GOPROXY=off GOSUMDB=off GOTOOLCHAIN=local
WT=$1; ID=$2; shift 2; PROPS="$@"
OUT=/verif/seeded/$ID; mkdir -p $OUT
cd $WT || exit 2
git diff > $OUT/patch.diff
DEMO=$(git status --porcelain | grep '^??' | awk '{print $2}' | grep '_test.go$' | head -1)
PKG=./$(dirname $DEMO)
cp $DEMO $OUT/$(basename $DEMO)
[ -f SEED_NOTES.md ] && cp SEED_NOTES.md $OUT/SEED_NOTES.md
echo "== build"; go build ./... && BUILD=ok || BUILD=fail
echo "== demo with change (must fail)"; go test -vet=off -count=1 $PKG >/tmp/seed_with.txt 2>&1 && WITH=pass || WITH=fail
git apply -R $OUT/patch.diff   # (not git stash: the stash is shared between worktrees)
# bring the worktree to /repo's current commit (contracts added since the worktree was made)
git checkout -q --detach $(git -C /repo rev-parse HEAD)
echo "== demo without change (must pass)"; go test -vet=off -count=1 $PKG >/tmp/seed_without.txt 2>&1 && WITHOUT=pass || WITHOUT=fail
git apply $OUT/patch.diff
mv $DEMO /tmp/seed_demo_aside
echo "== suite with change (must pass)"; go test -vet=off -count=1 ./... >/tmp/seed_suite.txt 2>&1 && SUITE=pass || SUITE=fail
mv /tmp/seed_demo_aside $DEMO
echo "build=$BUILD demo_with=$WITH demo_without=$WITHOUT suite=$SUITE"
# the checks run against the scratch worktree itself (gcv -repo): /repo is not touched
RES=""
for P in $PROPS; do
  L=$(/verif/bin/gcv -repo $WT -verif /verif -prop $P -tier quick 2>&1 | grep -E "^VIOLATION|^UNDECIDED|^property" | head -6)
  echo "$L"
  if echo "$L" | grep -q "^VIOLATION property=$P"; then RES="$RES $P:caught"; elif echo "$L" | grep -q "^UNDECIDED"; then RES="$RES $P:undecided"; else RES="$RES $P:missed"; fi
  echo "$L" > $OUT/check_$P.txt
done
# the runs above were made on a deliberately broken tree: do not leave their evidence files behind
git -C /verif checkout -- evidence 2>/dev/null
python3 - <<PY
import json
json.dump({"seed": "$ID", "worktree_checks": {"build": "$BUILD", "demo_with_change": "$WITH", "demo_without_change": "$WITHOUT", "suite_with_change": "$SUITE"},
 "checks_run": "$RES".split(), "demo": "$(basename $DEMO)", "demo_package": "$PKG"}, open("$OUT/meta.json","w"), indent=1)
PY
echo "RESULT $ID:$RES"
