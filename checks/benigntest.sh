#!/bin/bash
# benigntest.sh <worktree> <id> <property> [...]: a behaviour-preserving edit (made in a scratch worktree) must
# not raise an alarm: run the checks of the given properties against that tree and archive the edit with the
# results under /verif/benign/<id>/.
export GOFLAGS=-mod=mod GOPROXY=off GOSUMDB=off GOTOOLCHAIN=local
WT=$1; ID=$2; shift 2
OUT=/verif/benign/$ID; mkdir -p $OUT
git -C $WT diff > $OUT/patch.diff
[ -f $WT/REFACTOR_NOTES.md ] && cp $WT/REFACTOR_NOTES.md $OUT/
(cd $WT && go build ./... && go test -vet=off -count=1 ./... >/tmp/benign_suite.txt 2>&1 && echo "suite=pass" || echo "suite=FAIL") | tee $OUT/suite.txt
RES=""
for P in "$@"; do
  L=$(/verif/bin/gcv -repo $WT -verif /verif -prop $P -tier quick 2>&1 | grep -E "^VIOLATION|^UNDECIDED|^property" | head -6)
  RC=silent
  echo "$L" | grep -q "^UNDECIDED" && RC=undecided
  echo "$L" | grep -q "^VIOLATION" && RC=ALARM
  echo "$P: $RC"; echo "$L" | grep -E "^VIOLATION|^UNDECIDED" | cut -c1-300
  RES="$RES $P:$RC"
  echo "$L" > $OUT/check_$P.txt
done
echo "$RES" > $OUT/result.txt
git -C /verif checkout -- evidence 2>/dev/null
echo "RESULT $ID:$RES"
