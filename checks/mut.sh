#!/bin/bash
# development helper: apply a sed expression to a repo file, run gcv on functions, restore.
# usage: mut.sh <file> <sed-expr> <funcs>
f=/repo/$1
cp $f /tmp/mut.bak
sed -i "$2" $f
if cmp -s $f /tmp/mut.bak; then echo "MUTATION DID NOT APPLY"; fi
/verif/bin/gcv -func $3 2>&1 | grep -E "FAILED|UNSUPPORTED|^==|not found" | cut -c1-160
cp /tmp/mut.bak $f
