#!/usr/bin/env python3
# regenerates MANIFEST.json from the table below (kept as code so that it stays consistent)
import json, subprocess
props = [json.loads(l) for l in open('/verif/properties.jsonl')]
ids = [p['id'] for p in props]
claimed = {
 "C05": dict(
   text="Deductive proof, for all inputs, buffer sizes >= 1 and short-write/error behaviours of the underlying writer, that the buffered writer's accepted byte sequence (what the socket took ++ what is buffered) grows by exactly the bytes each Write reports as accepted and is unchanged by flush/Flush, including the short-write compaction path; loop invariants, no unrolling bound.",
   note="Assumes the io.Writer contract (0<=n<=len(p), appends p[0:n], n<len(p) implies error), mathematical integers, erased logging/metrics calls; Conn.Write/HandleData framing and the pickle encoder are not yet under contract (listed in DESIGN.md section 7 C05); TCP delivery and channel FIFO order are assumptions.",
   ref="7 C05"),
 "C19": dict(
   text="Deductive proof of the sequential specification of the order validator (accept iff strictly newer than the stored timestamp of the key's hash; map updated only on accept; every other key untouched), of the package invariant (hash object reset and lock free on return) established by init, and of the lock discipline (every access to the map and the shared hash object happens while the mutex is held).",
   note="Linearizability under concurrent callers follows from the proved lock discipline plus the sequential spec by the standard argument (not mechanised); fnv64a is uninterpreted and assumed collision-free on the names seen; hash.Hash and sync.Mutex contracts are assumed; the Dispatch-side accounting (counter, bad-metric record) is decided under C02's obligations on Table.Dispatch once those are claimed.",
   ref="7 C19"),
}
reasons = {
 "C08": "crash-point quantifier needs a crash semantics for the file system, a recovery function and a crash invariant at every intermediate state (crash Hoare logic); no contract within reach of the VC generator written here expresses it (DESIGN.md section 11)",
}
checks = []
for i in ids:
    if i in claimed:
        c = claimed[i]
        checks.append({
          "property_id": i,
          "quick_cmd": f"bash /verif/checks/run.sh {i} quick",
          "thorough_cmd": f"bash /verif/checks/run.sh {i} thorough",
          "evidence_file": f"/verif/evidence/{i}.json",
          "replay_cmd_template": "cat {path}   # the replay file holds the failed obligation, the solver output, the candidate model and the go test command that was run against the real code",
          "engine": "gcv",
          "level_claimed": {"category": "proof", "text": c["text"], "design_ref": c["ref"]},
          "level_note": c["note"],
          "technique": "contract-based deductive verification: weakest-precondition style symbolic execution of go/ssa with loop invariants and call contracts, obligations discharged by z3/cvc5",
        })
na = [{"property_id": i, "reason": reasons.get(i, "not completed yet: contracts for this property are still being brought under the verifier (DESIGN.md section 7)")} for i in ids if i not in claimed]
hooks_commits = subprocess.run(["git","-C","/repo","log","--format=%H %s"],capture_output=True,text=True).stdout.strip().split("\n")
src = [l.split()[0] for l in hooks_commits if " verif:" in l]
m = {"version": 1,
 "setup_cmd": "bash /verif/checks/setup.sh",
 "hooks": {"guard": "verif", "enable": "contract files /repo/<pkg>/verif_contracts.go carry //go:build verif and contain only comments; gcv reads them as text, no executable hook exists",
           "baseline_off_cmd": "cd /repo && go test -mod=mod -vet=off -count=1 -timeout 25m ./...", "source_commits": src, "add_only": True},
 "engines": [{"name": "gcv", "path": "/verif/engine", "serves_properties": sorted(claimed), "kind_free_text": "contract-based deductive verifier for Go written here: symbolic execution of go/ssa (naive form) with loop cuts at invariants and call cuts at contracts, one SMT-LIB query per named obligation, discharged by z3 5.1 / z3 4.8 / cvc5"}],
 "checks": checks,
 "notes": "contracts live in /repo/<pkg>/verif_contracts.go (comment-only, build tag verif) and assumed library contracts in /verif/specs; see DESIGN.md",
 "not_applicable": na}
json.dump(m, open('/verif/MANIFEST.json','w'), indent=1)
print("claimed", sorted(claimed))
