#!/usr/bin/env python3
# regenerates MANIFEST.json from the table below (kept as code so that it stays consistent)
import json, subprocess
props = [json.loads(l) for l in open('/verif/properties.jsonl')]
ids = [p['id'] for p in props]
claimed = {
 "C01": dict(
   text="Deductive proof over the real Table.Dispatch, Table.DispatchAggregate, SendAllMatch/SendFirstMatch.Dispatch, baseRoute.Match and Destination.Match: for all lines and all published table values (any number of blacklist entries, rewriters, aggregators, routes; routes pairwise distinct), the call log of every route's Dispatch grows by exactly the forwarded line iff the route's filter accepts the rewritten name and is unchanged otherwise (and for every object that is not a route of the table), unroutable/blacklist counters move exactly as stated, send-all-match sends to exactly the accepting destinations and send-first-match to the first one only. Loop invariants over the range index, no bound on table size.",
   note="Route.Dispatch/Match are specified at the interface level (call logs are ghost state maintained by the verifier); Kafka/PubSub/CloudWatch/GrafanaNet/ConsistentHashing implementations are not checked against the interface contract here (ConsistentHashing: C15); the composition table->route->destination on the name is per-function, not one mechanised theorem; ValidatePacket, bytes.Fields/Join and the matcher externs are assumed contracts; channel FIFO assumed.",
   ref="7 C01"),
 "C02": dict(
   text="Deductive proof that Table.Dispatch counts every line as inbound exactly once, that a line is rejected exactly when ValidatePacket (called with the levels of the loaded table value, in that argument order) rejects it, that a rejected line increments the invalid counter once, is reported to the bad-metrics channel with its key, text and reason, and reaches no aggregator and no route; that the level names strict/medium/none map to the documented levels in UnmarshalText and any other name is an error; IncNumInvalid counts both counters once.",
   note="The validation grammar itself lives in the pinned module go-metrics20 and enters as uninterpreted functions (vpErr, vpKey, ...): whether it implements the documented grammar is outside /repo and not decided. BadMetrics.manage (the report side) and cfg default levels are not yet under contract.",
   ref="7 C02"),
 "C03": dict(
   text="Deductive proof that Matcher.Match equals the documented six-way conjunction for every name and every well-formed matcher, that New/updateInternals establish well-formedness, that PreMatch decides exactly the cheap conditions and never rejects a name the filter accepts, that the aggregator's MatchRegexAndExpand/matchWithCache/AddMaybe decide consumption by the complete filter and that the match cache stays coherent across every lookup and insert (object invariant), and that routes, destinations and DispatchAggregate evaluate filters on the metric name only. The regex-prefix lemma (every match starts with the derived prefix) is decided by a bounded stand-in on the real regexToPrefix and regexp package.",
   note="regexp/bytes functions are assumed contracts over uninterpreted reMatch/prefixof/contains; the prefix lemma is bounded (regexes '^'+<=4 tokens, thorough 5, inputs of length <=5) and is not counted as proved; the cache-expiry loop in Aggregator.run is not yet under contract.",
   ref="7 C03"),
 "C04": dict(
   text="Deductive proof that the line handed to routes is exactly rewritten-name ++ ' ' ++ value-token ++ ' ' ++ timestamp-token with the tokens byte-for-byte as received (they are never re-printed), the name being the fold of the rewriters in table order (rwStep, defined by two equations), that RW.Do equals the documented rule (not-clause skip, regex replace-all, literal replace with max), that Dispatch leaves the caller's buffer unchanged, and that the one slice value handed to every route lives in storage allocated during the call (distinct from the caller's array).",
   note="bytes.Replace/regexp.ReplaceAll/bytes.Fields/Join are assumed contracts; rewriter.New, Plain.Handle and the no-write frame of everything below Route.Dispatch are not yet under contract.",
   ref="7 C04"),
 "C05": dict(
   text="Deductive proof, for all inputs, buffer sizes >= 1 and short-write/error behaviours of the underlying writer, that the buffered writer's accepted byte sequence (what the socket took ++ what is buffered) grows by exactly the bytes each Write reports as accepted and is unchanged by flush/Flush, including the short-write compaction path; loop invariants, no unrolling bound.",
   note="Also proved: Conn.Write appends exactly line ++ newline (text mode) or one length-prefixed pickle frame (pickle mode) to the accepted byte sequence or reports an error, and every iteration of the connection's event loop HandleData keeps the writer well-formed and puts a line into the keep-safe buffer before writing it. NOT proved: the loop-level statement 'accepted bytes == concatenation of the framed lines received so far' (recursive spec function over the receive log; the invariant was not discharged and is not claimed). Assumes the io.Writer contract (0<=n<=len(p), appends p[0:n], n<len(p) implies error), mathematical integers, erased logging/metrics calls; the pickle body is the external encoder's; TCP delivery and channel FIFO order are assumptions.",
   ref="7 C05"),
 "C11": dict(
   text="Deductive proof that DispatchAggregate only calls Route.Match/Dispatch and the unroutable counter (frame: no validation, blacklist, rewriter, aggregator call, no other counter), so aggregate output cannot re-enter an aggregation for any rule set; that AddMaybe tells the table to withhold a metric exactly when drop-raw is set and the aggregation's complete filter accepts the name; and that Table.Dispatch offers the metric to aggregators in order up to and including the first consuming one and to no later aggregator and no route.",
   note="Aggregator.Flush writing only to its out channel and the goroutine literal of table.New are not yet under contract; the cache object invariant is assumed at call sites (private state).",
   ref="7 C11"),
 "C18": dict(
   text="Deductive proof, with panic-freedom obligations on, of the list semantics of AddRoute/AddBlacklist/AddAggregator/DelRoute/DelBlacklist/DelAggregator/GetRoute (append at end; delete removes exactly that entry and keeps order; unknown key is a no-op; index beyond the end is an error and publishes nothing), that each mutator publishes a complete TableConfig and releases the mutex, and of snapshot immutability: no slice reachable from the previously published value is written (exact append model: in place when capacity suffices, fresh array otherwise).",
   note="Atomicity w.r.t. concurrent dispatchers follows from single Load per reader (visible in the Dispatch contracts), publication under the mutex and the proved immutability of published values, by the standard argument (not mechanised). AddRewriter/DelRewriter (slices of structs), route-level destination changes and Update* are not yet under contract.",
   ref="7 C18"),
 "C19": dict(
   text="Deductive proof of the sequential specification of the order validator (accept iff strictly newer than the stored timestamp of the key's hash; map updated only on accept; every other key untouched), of the package invariant (hash object reset and lock free on return) established by init, of the lock discipline (every access to the map and the shared hash object happens while the mutex is held), and of the Dispatch side: a rejected point is counted out-of-order exactly once, reported with the key, text and reason, and reaches no aggregator and no route.",
   note="Linearizability under concurrent callers follows from the proved lock discipline plus the sequential spec by the standard argument (not mechanised); fnv64a is uninterpreted and assumed collision-free on the names seen; hash.Hash and sync.Mutex contracts are assumed.",
   ref="7 C19"),
}
 
claimed["C09"] = dict(
   text="Deductive proof of necessary conditions of the persistent FIFO on the real writeOne/readOne/moveForward/skipToNextRWFile: writer and reader advance (file, position) by the same step function for all sizes and limits (same rollover boundary), the writer hands the file exactly be32(len) ++ payload in one write at its position and increments depth, the reader never acknowledges (read position and depth untouched until moveForward), moveForward adopts the read-ahead position, decrements depth and removes a segment only when it left it. The theorem itself (delivered = enqueued, in order, once, depth at rest, across close/reopen) is decided by a bounded stand-in on the real queue, labelled bounded and not counted as proved.",
   note="os.File, bufio, binary and bytes.Buffer contracts are assumed; file contents are not modelled, so the inverse-pair property of the framing and the ioLoop event loop (acknowledge only after delivery) are covered by the bounded stand-in only (histories of 4 operations, thorough 6 sampled, six size/sync configurations); panic-freedom of these functions is not checked (a corrupted segment is outside C09's clean-restart fault model).",
   ref="7 C09")
claimed["C15"] = dict(
   text="Deductive proof (panic-freedom included) that GetDestinationIndex returns the destination of the first ring entry at or after the key's 16-bit position, wrapping to the first entry, for every position-sorted non-empty ring (sort.Search contract over the inlined predicate, modulo ring length), that hashRing.Less is Carbon's (position, hostname, instance) order, and that ConsistentHashing.Dispatch sends the line to exactly that one destination (key = bytes before the first space) and to no other channel. The ring construction (16-bit md5 positions, 100 replicas, key format) and the order-independence / minimal-movement clauses are decided by a bounded stand-in against an independent implementation of Carbon's ring.",
   note="computeRingPosition and NewConsistentHasher/AddDestination are trusted at the contract level and checked by bounded stand-ins only (random keys; every subset of up to 4 of 5 destinations in every order x 3000 names); md5 is uninterpreted (ringPos); agreement with carbon-relay.py is relative to the ring definition in the property statement.",
   ref="7 C15")
claimed["C10"] = dict(
   text="Deductive proof, for each of the eight functions avg, count, delta, derive, last, max, min, sum, that the processor's state is exactly the left fold of its function over the values (and timestamps) contributed so far (constructor = first point, Add = one more point, ghost logs maintained by contract-level ghost assignments), and that Flush returns that function of exactly the contributed values (derive: only with two distinct timestamps; same uninterpreted float operations as the code, so exact for IEEE arithmetic). For the bucket structure: AddOrCreate contributes the point exactly once to the bucket (quantized, key) if it exists, creates it with exactly this point if the bucket start is newer than now-wait, and otherwise counts it too old and creates nothing; every other bucket and processor is untouched; the timestamp list stays sorted and every listed timestamp has a bucket.",
   note="Aggregator.Flush (emission order, one line per bucket, deletion of closed buckets), Aggregator.run (quantisation, tick handling), stdev and percentiles are not yet under contract, so 'emitted exactly once, in ascending order' is NOT decided yet; the no-duplicates/completeness/processor-distinctness parts of the bucket invariant are assumed (not proved preserved on the path that re-sorts the list); sort.Sort, the clock (a.now) and the processor constructor stored in the aggregator are assumed contracts; floats are uninterpreted.",
   ref="7 C10")
claimed["C12"] = dict(
   text="Deductive proof that Plain.Handle hands the dispatcher exactly the scanner's tokens, in order, each once (loop invariant over the ghost call log; for every stream length), returns the scanner's error and never counts a protocol reject -- relative to the standard library's bufio.Scanner/ScanLines contract (lines independent of segmentation), which is assumed and audited by a bounded stand-in feeding the real handler every cut position of a corpus through a chunking reader.",
   note="Chunk invariance itself is bufio's property (assumed; bounded audit only: 6 streams x cut positions/1-byte reads/data+EOF); UDP (handleData), AMQP (ReadLine, 4 KiB) and TimeoutConn.Read are not yet under contract.",
   ref="7 C12")
claimed["C13"] = dict(
   text="Deductive proof of panic-freedom of Pickle.Handle and checkProtocol for every byte stream (every type assertion is guarded, every index is within the checked lengths, the chunk loop stays within its buffer for every payload length including 0), plus a bounded stand-in for the equivalence with text input: frames produced by CPython's pickle module (protocols 0-4) are fed to the real handler under several segmentations and compared with the equivalent text lines.",
   note="Which Go types the pinned ogórek produces for which CPython opcodes is the library's contract; the equivalence clause is decided by the bounded stand-in only (40 frames x 4 segmentations, not counted as proved). Two open known findings inside ogórek are listed in known_findings.json (protocol-0 non-ASCII names, negative BININT values).",
   ref="7 C13")
claimed["C06"] = dict(
   text="Deductive proof on the real relay event loop (loop invariant plus a per-iteration branch contract): every iteration that takes a line from the destination's input channel hands it to exactly one place -- the connection's queue, the spool's real-time queue -- or increments exactly one drop counter (slow connection, slow spool, connection down without spool); with the connection down and spooling off the connection-down counter always moves. The two helpers that hand a line on (function literals of relay) are proved non-blocking (a select with a default is their only channel operation) and to count what they drop. Panic-freedom of relay is proved under the constructor-established parameters.",
   note="'Returns within a bounded time' is a liveness/timing claim that contracts cannot express; what is proved is the accounting and the non-blocking effect of the hand-off helpers. The flush and shutdown branches of relay do block (they wait for the connection goroutine) and are outside the proved effect. Channel ownership (each channel is created by its own make and closed only by its owner; dest.In is never closed) is an assumed loop invariant, listed in the evidence; updateConn, collectRedo and Spool.Close are trusted; route dispatchers blocking only on dest.In is visible in their contracts (C01) but not a proved effect.",
   ref="7 C06")
claimed["C14"] = dict(
   text="Deductive proof of panic-freedom obligations (nil dereference, index/slice bounds, division by zero, failed type assertion, negative make, close of closed channel, explicit panic, library preconditions such as NewTicker's positive period) for the network-facing handlers Plain.Handle, Pickle.Handle and checkProtocol for every byte stream, for the relay loop, GrafanaNet.Dispatch and ConsistentHashing.Dispatch under the invariants their constructors establish, and of the constructor side of the property: destination.New, aggregator.New/NewMocked (interval, regex), clock.AlignedTick's precondition at its call site, NewWriter's size -- each either establishes the invariant or returns an error. Every other function under contract carries the same obligations inside the check of the property it serves.",
   note="Only the functions named in the evidence are covered: imperatives.Apply and the telnet/admin parser, cfg.Init*, UDP/AMQP inputs, Aggregator.run/Flush, HandleData, the Kafka/PubSub/CloudWatch routes and NewGrafanaNet's body are not under contract yet, so no claim is made for them; externs are assumed not to panic when their stated preconditions hold; memory exhaustion is out of scope.",
   ref="7 C14")
claimed["C07"] = dict(
   text="Deductive proof of the per-hop conservation lemmas the spooling guarantee rests on, each a necessary condition of the property on the real code: a connection dropped by the relay loop while spooling is on is handed to collectRedo (per-iteration contract over the spawn log); getRedo returns everything kept safe plus every line still queued for the connection, each drained line being added to the keep-safe buffer (loop invariant, for any number of queued lines); GetAll/Add keep every entry; a keep-safe tick never discards a line of the current period; Ingest sends all redo lines to the spool's bulk input in order; Writer forwards every line from either spool input to the queue buffer; Buffer hands every buffered line to DiskQueue.Put; a line that cannot be spooled is counted slow-spool; an unspooled line is read only while a connection is up and is handed to the connection or counted slow-conn.",
   note="The property itself -- at-least-once delivery after recovery for every outage/recovery schedule -- composes these hops across six goroutines and depends on timing (outage detection latency vs. the 10 s keep-safe window, a concurrent keep-safe tick during getRedo) and on C09 for the disk queue: that composition is a whole-history, schedule- and time-dependent argument that no contract within reach decides, so it is NOT decided here; only the listed lemmas are. Channel ownership (channels never closed by others) is an assumed loop invariant; collectRedo, clearRedo, DiskQueue.Put, Spool.Close are trusted; Buffer ignoring Put's error (disk failure) is outside C07's fault model and noted in DESIGN.md.",
   ref="7 C07")
reasons = {
 "C08": "crash-point quantifier needs a crash semantics for the file system, a recovery function and a crash invariant at every intermediate state (crash Hoare logic); no contract within reach of the VC generator written here expresses it (DESIGN.md section 11)",
}
checks = []
for i in ids:
    if i in claimed:
        c = claimed[i]
        checks.append({
          "property_id": i,
          "quick_cmd": f"bash /verif/checks/run.sh {i} quick",
          "thorough_cmd": f"bash /verif/checks/run.sh {i} thorough",
          "evidence_file": f"/verif/evidence/{i}.json",
          "replay_cmd_template": "cat {path}   # the replay file holds the failed obligation, the solver output, the candidate model and the go test command that was run against the real code",
          "engine": "gcv",
          "level_claimed": {"category": "proof", "text": c["text"], "design_ref": c["ref"]},
          "level_note": c["note"],
          "technique": "contract-based deductive verification: weakest-precondition style symbolic execution of go/ssa with loop invariants and call contracts, obligations discharged by z3/cvc5",
        })
na = [{"property_id": i, "reason": reasons.get(i, "not completed yet: contracts for this property are still being brought under the verifier (DESIGN.md section 7)")} for i in ids if i not in claimed]
hooks_commits = subprocess.run(["git","-C","/repo","log","--format=%H %s"],capture_output=True,text=True).stdout.strip().split("\n")
src = [l.split()[0] for l in hooks_commits if " verif:" in l]
m = {"version": 1,
 "setup_cmd": "bash /verif/checks/setup.sh",
 "hooks": {"guard": "verif", "enable": "contract files /repo/<pkg>/verif_contracts.go carry //go:build verif and contain only comments; gcv reads them as text, no executable hook exists",
           "baseline_off_cmd": "cd /repo && go test -mod=mod -vet=off -count=1 -timeout 25m ./...", "source_commits": src, "add_only": True},
 "engines": [{"name": "gcv", "path": "/verif/engine", "serves_properties": sorted(claimed), "kind_free_text": "contract-based deductive verifier for Go written here: symbolic execution of go/ssa (naive form) with loop cuts at invariants and call cuts at contracts, one SMT-LIB query per named obligation, discharged by z3 5.1 / z3 4.8 / cvc5"}],
 "checks": checks,
 "notes": "contracts live in /repo/<pkg>/verif_contracts.go (comment-only, build tag verif) and assumed library contracts in /verif/specs; see DESIGN.md",
 "not_applicable": na}
json.dump(m, open('/verif/MANIFEST.json','w'), indent=1)
print("claimed", sorted(claimed))
