#!/bin/bash
# builds the verifier offline from files on disk
set -e
export GOFLAGS=-mod=mod GOPROXY=off GOSUMDB=off GOTOOLCHAIN=local
cd /verif/engine
mkdir -p /verif/bin
go build -o /verif/bin/gcv .
echo "gcv built"
