#!/bin/bash
# run.sh <property id> <quick|thorough>: decide one property on /repo's current working tree.
# exit 0 = every obligation discharged; exit 1 + "VIOLATION property=<id> replay=<path>" = a named
# obligation failed; exit 2 = UNDECIDED (contract could not be bound / unsupported construct).
export GOFLAGS=-mod=mod GOPROXY=off GOSUMDB=off GOTOOLCHAIN=local
ID=$1
TIER=${2:-${VERIF_TIER:-quick}}
if [ ! -x /verif/bin/gcv ] || [ -n "$(find /verif/engine -newer /verif/bin/gcv -name '*.go' 2>/dev/null | head -1)" ]; then
  bash /verif/checks/setup.sh >/dev/null || { echo "UNDECIDED property=$ID reason=engine-build-failed"; exit 2; }
fi
exec /verif/bin/gcv -repo /repo -verif /verif -prop "$ID" -tier "$TIER"
